import Unsized.PtrFresh
/-!
# Stage C (C01 `ptrs_fresh`): the pointer tree along an accessor chain, helper lemmas

`chainWith s v b p T` is the top pointer object of a value after the accessors along `p` were taken from a
fresh borrow (`inner_exclusive` caches, `possible_mut_borrow` set), with `T` at the end of the chain. The
theorem `notify_chain` (in `Unsized/PtrChainNotify.lean`) says the broadcast `resize_notification` turns the
chain of the old value into the chain of the new value.
-/
namespace Unsized.Ptr
open Common Unsized Unsized.Text Unsized.Machine Unsized.PtrT

/-! ## The tree after taking the accessors along a path -/

/-- The pointer tree of the value `v` at `base` after the chain of child accessors along `p` has been
taken from a fresh borrow, with the tree `T` sitting at the end of the chain: `index_exclusive` /
`get_exclusive` store the element's pointer in `inner_exclusive` and set `possible_mut_borrow`; field and
variant accessors point into the parent's tree. -/
def chainWith : Shape → Val → Nat → List Step → PtrTree → PtrTree
  | _, _, _, [], T => T
  | s, v, b, st :: p, T =>
    match resolve1 s v st with
    | .error _ => treeOf s v b
    | .ok (t, u) =>
      let child := chainWith t u (b + (stepPre s v st 0).length) p T
      match s, v, st with
      | .struct sized fs, .record _ vs, .field i =>
        if sized.isEmpty then .node ((treesOf fs vs b).set i child)
        else .node (.leaf .checked b :: (treesOf fs vs (b + Fixed.sizeList sized)).set i child)
      | .ulist e, .useq vs, .elem _ =>
        .ulist 4 b vs.length b (b + size (.ulist e) (.useq vs)) (some child) true
      | .umap kw e, .umap es, .elem _ =>
        .node [.ulist (Shape.entryW kw) b es.length b (b + size (.umap kw e) (.umap es)) (some child) true]
      | .enum _ _, .variant idx _, .payload => .start b idx (some child)
      | s, v, _ => treeOf s v b

/-- The fresh chain: every pointer on it is what `get_ptr` gives on the current bytes. -/
def chainOf (s : Shape) (v : Val) (b : Nat) (p : List Step) : PtrTree :=
  match resolve s v p with
  | .ok (t, u) => chainWith s v b p (treeOf t u (b + offsetOf s v p))
  | .error _ => treeOf s v b

theorem treesOf_split (fs : List Shape) (vs : List Val) (i : Nat) (f : Shape) (x : Val) (b : Nat)
    (hf : fs[i]? = some f) (hx : vs[i]? = some x) :
    treesOf fs vs b = treesOf (fs.take i) (vs.take i) b
      ++ treeOf f x (b + sizeFields (fs.take i) (vs.take i))
      :: treesOf (fs.drop (i + 1)) (vs.drop (i + 1)) (b + sizeFields (fs.take i) (vs.take i) + size f x) := by
  induction i generalizing fs vs b with
  | zero =>
    cases fs with
    | nil => simp at hf
    | cons f' fs => cases vs with
      | nil => simp at hx
      | cons x' vs => simp at hf hx; subst hf hx; simp [treesOf, sizeFields]
  | succ i ih =>
    cases fs with
    | nil => simp at hf
    | cons f' fs => cases vs with
      | nil => simp at hx
      | cons x' vs =>
        simp at hf hx
        simp only [List.take_succ_cons, List.drop_succ_cons, treesOf, sizeFields, List.cons_append]
        rw [ih fs vs (b + size f' x') hf hx]
        simp [Nat.add_assoc]

theorem treesOf_length (fs : List Shape) (vs : List Val) (b : Nat) (h : fs.length = vs.length) :
    (treesOf fs vs b).length = fs.length := by
  induction fs generalizing vs b with
  | nil => cases vs <;> simp [treesOf]
  | cons f fs ih => cases vs with
    | nil => simp at h
    | cons v vs => simp [treesOf, ih vs _ (by simpa using h)]

theorem notifyL_append (usz : Nat → Nat) (src : Nat) (neg : Bool) (amt : Nat) (a c a' c' : List PtrTree)
    (ha : notifyL usz src neg amt a = some a') (hc : notifyL usz src neg amt c = some c') :
    notifyL usz src neg amt (a ++ c) = some (a' ++ c') := by
  induction a generalizing a' with
  | nil => simp [notifyL] at ha; subst ha; simpa using hc
  | cons t ts ih =>
    simp only [notifyL] at ha
    cases ht : resizeNotify usz src neg amt t with
    | none => simp [ht] at ha
    | some t' =>
      simp only [ht] at ha
      cases hts : notifyL usz src neg amt ts with
      | none => simp [hts] at ha
      | some ts' =>
        simp only [hts, Option.some.injEq] at ha
        subst ha
        simp only [List.cons_append, notifyL, ht, ih ts' hts]

theorem sizeFields_enc (fs : List Shape) (vs : List Val) (hv : validFields fs vs = true) :
    (encodeFields fs vs).length = sizeFields fs vs := by
  induction fs generalizing vs with
  | nil => cases vs <;> simp [encodeFields, sizeFields]
  | cons f fs ih => cases vs with
    | nil => simp [validFields] at hv
    | cons x xs =>
      simp only [validFields, Bool.and_eq_true] at hv
      simp [encodeFields, sizeFields, encode_size_all f x hv.1, ih xs hv.2]

theorem validFields_take (fs : List Shape) (vs : List Val) (i : Nat) (hv : validFields fs vs = true) :
    validFields (fs.take i) (vs.take i) = true := by
  induction i generalizing fs vs with
  | zero => simp [validFields]
  | succ i ih => cases fs with
    | nil => cases vs <;> simp [validFields] at hv ⊢
    | cons f fs => cases vs with
      | nil => simp [validFields] at hv
      | cons x xs => simp only [validFields, Bool.and_eq_true] at hv; simp [validFields, hv.1, ih fs xs hv.2]

theorem fitsFields_take (fs : List Shape) (vs : List Val) (i : Nat) (hv : fitsFields fs vs = true) :
    fitsFields (fs.take i) (vs.take i) = true := by
  induction i generalizing fs vs with
  | zero => simp [fitsFields]
  | succ i ih => cases fs with
    | nil => simp [fitsFields]
    | cons f fs => cases vs with
      | nil => simp [fitsFields]
      | cons x xs => simp only [fitsFields, Bool.and_eq_true] at hv; simp [fitsFields, hv.1, ih fs xs hv.2]

/-- every field before index `i` is non-ZST and the prefix is itself an admissible field list -/
theorem okFields_take (fs : List Shape) (i : Nat) (h : Shape.okFields fs = true) (hi : i < fs.length) :
    Shape.okFields (fs.take i) = true ∧ (i ≠ 0 → Shape.zstLast false (fs.take i) = false) := by
  induction i generalizing fs with
  | zero => simp [Shape.okFields]
  | succ i ih =>
    cases fs with
    | nil => simp at hi
    | cons f fs =>
      cases fs with
      | nil => simp at hi
      | cons g gs =>
        obtain ⟨h1, h2, h3⟩ := okFields_cons2 f g gs h
        obtain ⟨a1, a2⟩ := ih (g :: gs) h3 (by simpa using hi)
        simp only [List.take_succ_cons]
        cases i with
        | zero => simp [Shape.okFields, Shape.zstLast, h1, h2]
        | succ j =>
          simp only [List.take_succ_cons] at a1 a2 ⊢
          refine ⟨?_, fun _ => ?_⟩
          · simp only [Shape.okFields, Bool.and_eq_true, Bool.not_eq_true']; exact ⟨⟨h1, h2⟩, a1⟩
          · rw [zstLast_cons_cons]; exact a2 (by omega)


theorem resolve1_subst1 (s : Shape) (v : Val) (st : Step) (t : Shape) (u w : Val)
    (h : resolve1 s v st = .ok (t, u)) : resolve1 s (subst1 v st w) st = .ok (t, w) := by
  unfold resolve1 at h
  split at h
  · rename_i sized fs sz vs i
    split at h
    · rename_i f x hf hx
      cases h
      have hi : i < vs.length := by
        rcases Nat.lt_or_ge i vs.length with h | h
        · exact h
        · simp [List.getElem?_eq_none h] at hx
      simp [subst1, resolve1, hf, hi]
    · cases h
  · rename_i e vs i
    split at h
    · rename_i x hx
      cases h
      have hi : i < vs.length := by
        rcases Nat.lt_or_ge i vs.length with h | h
        · exact h
        · simp [List.getElem?_eq_none h] at hx
      simp [subst1, resolve1, hi]
    · cases h
  · rename_i kw e es i
    split at h
    · rename_i kx hx
      cases h
      have hi : i < es.length := by
        rcases Nat.lt_or_ge i es.length with h | h
        · exact h
        · simp [List.getElem?_eq_none h] at hx
      simp [subst1, resolve1, hx, hi]
    · cases h
  · rename_i ds ps idx pl
    split at h
    · cases h
    · cases h
    · rename_i t' hnu ht
      cases h
      simp only [subst1, resolve1]
      split
      · rename_i h0; rw [ht] at h0; cases h0
      · rename_i h0; rw [ht] at h0; cases h0; exact absurd rfl (hnu)
      · rename_i t2 hnu2 h0; rw [ht] at h0; cases h0; rfl
  · cases h

/-- A size change of the sub-value at `p` changes the size of the whole value by the same amount. -/
theorem size_subst_delta (p : List Step) (s : Shape) (v : Val) (t : Shape) (u u' : Val) (g : Good s v)
    (g' : Good s (subst s v p u')) (h : resolve s v p = .ok (t, u)) (neg : Bool) (amt : Nat)
    (hX : (encode t u').length = applyDelta neg amt (encode t u).length)
    (hneg : neg = true → amt ≤ (encode t u).length) :
    size s (subst s v p u') = applyDelta neg amt (size s v) := by
  rw [← encode_size_all s _ g'.valid, ← encode_size_all s v g.valid, subst_encode p s v t u u' g h]
  have h1 := plug_length p s v t u g h (encode t u')
  have h2 := offsetOf_le p s v t u g h
  cases neg with
  | false => simp only [applyDelta, Bool.false_eq_true, if_false] at hX ⊢; omega
  | true => have := hneg rfl; simp only [applyDelta, if_true] at hX ⊢; omega

theorem set_mid {α : Type} (L R : List α) (x c : α) (i : Nat) (hi : i = L.length) :
    (L ++ x :: R).set i c = L ++ c :: R := by
  subst hi; simp

/-- The children of a struct pointer: the ones before the entered field stay, the entered one is the
chain below, the ones after shift. -/
theorem struct_kids (fs : List Shape) (vs : List Val) (i : Nat) (t1 : Shape) (u1 w : Val) (B : Nat)
    (usz : Nat → Nat) (src : Nat) (neg : Bool) (amt : Nat) (child child' : PtrTree)
    (hl : fs.length = vs.length)
    (hf : fs[i]? = some t1) (hx : vs[i]? = some u1)
    (hL : notifyL usz src neg amt (treesOf (fs.take i) (vs.take i) B) = some (treesOf (fs.take i) (vs.take i) B))
    (hC : resizeNotify usz src neg amt child = some child')
    (hR : notifyL usz src neg amt (treesOf (fs.drop (i + 1)) (vs.drop (i + 1))
            (B + sizeFields (fs.take i) (vs.take i) + size t1 u1))
          = some (treesOf (fs.drop (i + 1)) (vs.drop (i + 1)) (B + sizeFields (fs.take i) (vs.take i) + size t1 w))) :
    notifyL usz src neg amt ((treesOf fs vs B).set i child) = some ((treesOf fs (vs.set i w) B).set i child') := by
  have hi : i < vs.length := by
    rcases Nat.lt_or_ge i vs.length with h | h
    · exact h
    · simp [List.getElem?_eq_none h] at hx
  have hx' : (vs.set i w)[i]? = some w := by simp [hi]
  have hLlen : (treesOf (fs.take i) (vs.take i) B).length = i := by
    rw [treesOf_length _ _ _ (by simp [hl])]; simp; omega
  rw [treesOf_split fs vs i t1 u1 B hf hx, treesOf_split fs (vs.set i w) i t1 w B hf hx',
    List.take_set_of_le (Nat.le_refl i), List.drop_set_of_lt (by omega),
    set_mid _ _ _ _ _ hLlen.symm, set_mid _ _ _ _ _ hLlen.symm]
  have : notifyL usz src neg amt (child :: treesOf (fs.drop (i + 1)) (vs.drop (i + 1))
      (B + sizeFields (fs.take i) (vs.take i) + size t1 u1))
      = some (child' :: treesOf (fs.drop (i + 1)) (vs.drop (i + 1)) (B + sizeFields (fs.take i) (vs.take i) + size t1 w)) := by
    simp only [notifyL, hC, hR]
  exact notifyL_append usz src neg amt _ _ _ _ hL this

end Unsized.Ptr
