/-!
# Runtime model for C07: pinocchio 0.9.2 `AccountInfo` + the account-backed top wrapper

Models, as the code is NOW (after the two `fix:` commits in /repo):

* pinocchio `account_info.rs`: the borrow-state byte (data nibble: mutable flag bit 3, 3-bit counter of
  the shared borrows still available), `can_borrow_data`, `can_borrow_mut_data`, `try_borrow_data`,
  `try_borrow_mut_data`, `Drop for Ref/RefMut`, `resize_unchecked` (i32 arithmetic on
  `resize_delta`, `MAX_PERMITTED_DATA_INCREASE`, zero fill of the grown region);
* `star_frame/src/unsize/wrapper.rs`: `impl UnsizedTypeDataAccess for AccountInfo` (`data_mut`: the valid
  pointer range `start .. start + len + 10240 - resize_delta`), `ExclusiveWrapperTop::new`,
  `ExclusiveTopDrop::drop`, the top-level `add_bytes` / `remove_bytes` (pointer check, bounds
  checks, realloc, resize notification);
* `star_frame/src/account_set/account.rs`: `Account::data` / `data_mut` (writable check,
  `validate_account_info`'s length and `can_borrow_data` checks);
* `check_pointers` / `resize_notification` / `get_ptr` of `List`, `RemainingBytes`, `UnsizedList`,
  sized headers and derived structs, with the typed content abstracted to: the list of field
  kinds, one element count per field (which determines the field's byte width), and the list of
  field start pointers.

Pointers are `Nat` addresses; `base` is the address of the account data.
-/
namespace Unsized.Runtime

/-- pinocchio `MAX_PERMITTED_DATA_INCREASE`. -/
notation "MAX_INC" => (10240 : Nat)
/-- `size_of::<OwnerProgramDiscriminant<T>>()` for the harness programs (8-byte discriminants). -/
notation "DISC" => (8 : Nat)
notation "I32_MAX" => (2147483647 : Int)
notation "I32_MIN" => (-2147483648 : Int)
notation "I64_MAX" => (9223372036854775807 : Int)
notation "I64_MIN" => (-9223372036854775808 : Int)

inductive Err
  | accountBorrowFailed
  | invalidRealloc
  | accountDataTooSmall
  | pointerOutOfBounds
  | tryFromInt
  | unsizedUnexpected
  /-- `get_ptr` ran out of bytes at a field of the given kind tag (0 sized, 1 list, 3 ulist, 9 discriminant) -/
  | advance (tag : Nat)
deriving DecidableEq, Repr

/-- Result of an operation that may fail with an error or panic. -/
inductive Res (α : Type)
  | ok (v : α)
  | err (e : Err)
  | panic
deriving Repr

/-- The runtime account. `orig` (length at instruction start) is ghost: pinocchio does not store
it; the allocation behind `base` is `orig + 10240` bytes. `borrow` is the 8-bit borrow-state byte. -/
structure Acct where
  orig : Nat
  len : Nat
  delta : Int
  borrow : Nat
  base : Nat
  writable : Bool
deriving DecidableEq, Repr

/-! ## pinocchio: borrow byte -/

/-- `can_borrow_data`: fails if the mutable-borrow bit is in use (0) or no shared borrow is left. -/
def canBorrowData (b : Nat) : Bool :=
  if b &&& 8 = 0 then false else if b &&& 7 = 0 then false else true

/-- `can_borrow_mut_data`: all four data bits must be set. -/
def canBorrowMutData (b : Nat) : Bool :=
  if b &&& 15 ≠ 15 then false else true

/-- `try_borrow_data`: `*borrow_state -= 1`. -/
def tryBorrowData (a : Acct) : Except Err Acct :=
  if canBorrowData a.borrow then .ok { a with borrow := a.borrow - 1 } else .error .accountBorrowFailed

/-- `try_borrow_mut_data`: `*borrow_state &= 0b1111_0111`. -/
def tryBorrowMutData (a : Acct) : Except Err Acct :=
  if canBorrowMutData a.borrow then .ok { a with borrow := a.borrow &&& 0xF7 } else .error .accountBorrowFailed

/-- `Drop for Ref`: `*state += 1 << 0`. -/
def dropRef (a : Acct) : Acct := { a with borrow := a.borrow + 1 }

/-- `Drop for RefMut`: `*state |= 0b0000_1000`. -/
def dropRefMut (a : Acct) : Acct := { a with borrow := a.borrow ||| 8 }

/-! ## pinocchio: `resize_unchecked` -/

/-- `x as i32` for a `usize`. -/
def wrapI32 (n : Nat) : Int :=
  if n % 4294967296 < 2147483648 then ((n % 4294967296 : Nat) : Int) else ((n % 4294967296 : Nat) : Int) - 4294967296

def inI32 (x : Int) : Prop := I32_MIN ≤ x ∧ x ≤ I32_MAX
instance (x : Int) : Decidable (inI32 x) := by unfold inI32; infer_instance

/-- `ok a fill`: the new account and the zero-filled interval `(offset, length)` relative to the data start. -/
inductive ResizeRes
  | ok (a : Acct) (fill : Option (Nat × Nat))
  | err (e : Err)
  | panic
deriving Repr

/-- `AccountInfo::resize_unchecked` (arithmetic overflow panics: the harness builds with overflow checks). -/
def resizeUnchecked (a : Acct) (newLen : Nat) : ResizeRes :=
  -- `i32::try_from(new_len)`
  if I32_MAX < (newLen : Int) then .err .invalidRealloc
  -- `new_len == current_len` (current_len = `data_len() as i32`)
  else if (newLen : Int) = wrapI32 a.len then .ok a none
  -- `difference = new_len - current_len`, `accumulated = resize_delta + difference` (checked i32 arithmetic)
  else if inI32 ((newLen : Int) - wrapI32 a.len) then
    if inI32 (a.delta + ((newLen : Int) - wrapI32 a.len)) then
      if (10240 : Int) < a.delta + ((newLen : Int) - wrapI32 a.len) then .err .invalidRealloc
      else .ok { a with len := newLen, delta := a.delta + ((newLen : Int) - wrapI32 a.len) }
        (if 0 < (newLen : Int) - wrapI32 a.len
          then some ((wrapI32 a.len).toNat, ((newLen : Int) - wrapI32 a.len).toNat) else none)
    else .panic
  else .panic

/-! ## Typed content abstraction -/

inductive Kind
  /-- the sized header struct of `w` bytes (`CheckedPtr`) -/
  | sized (w : Nat)
  /-- `List<u8>`: u32 length prefix + one byte per element -/
  | list
  /-- `RemainingBytes` -/
  | remaining
  /-- `UnsizedList<List<u8>>` whose elements are all empty lists: 12 header bytes + (4 offset + 4 prefix) per element -/
  | ulist
deriving DecidableEq, Repr

def Kind.width : Kind → Nat → Nat
  | .sized w, _ => w
  | .list, c => 4 + c
  | .remaining, c => c
  | .ulist, c => 12 + 8 * c

/-- bytes per element -/
def Kind.unit : Kind → Nat
  | .sized _ => 0
  | .list => 1
  | .remaining => 1
  | .ulist => 8

def Kind.tag : Kind → Nat
  | .sized _ => 0
  | .list => 1
  | .remaining => 2
  | .ulist => 3

def Kind.isSized : Kind → Bool
  | .sized _ => true
  | _ => false

/-- A pointer visited by `check_pointers`; `incl` = it is a `RemainingBytesPtr` (checked against the
inclusive range `start..=end`, and it refuses resize notifications from behind it). -/
structure Ptr where
  addr : Nat
  incl : Bool
deriving DecidableEq, Repr

/-- `range.contains(&addr)` resp. `(range.start..=range.end).contains(&addr)`. -/
def Ptr.inRange (p : Ptr) (lo hi : Nat) : Bool :=
  if p.incl then decide (lo ≤ p.addr ∧ p.addr ≤ hi) else decide (lo ≤ p.addr ∧ p.addr < hi)

/-- Derived struct `check_pointers`: fields in order, one shared cursor, `&&`-chained. -/
def checkPointers (lo hi : Nat) : Nat → List Ptr → Bool
  | _, [] => true
  | cur, p :: ps => (decide (cur ≤ p.addr) && p.inRange lo hi) && checkPointers lo hi p.addr ps

/-- Struct `get_ptr` over the bytes `[off, stop)`: every field must fit; a `RemainingBytes` takes all
that is left. Returns the pointers and the element counts seen. -/
def getPtrs : List Kind → List Nat → Nat → Nat → Except Err (List Ptr × List Nat)
  | [], _, _, _ => .ok ([], [])
  | _ :: _, [], _, _ => .error (.advance 9)
  | k :: ks, c :: cs, off, stop =>
    -- a list-like field reads its own length prefix (`c`); `RemainingBytes` takes `data.len()`
    let c' := if k = .remaining then stop - off else c
    if off + k.width c' ≤ stop then
      match getPtrs ks cs (off + k.width c') stop with
      | .ok (ps, seen) => .ok (⟨off, decide (k = .remaining)⟩ :: ps, c' :: seen)
      | .error e => .error e
    else .error (.advance k.tag)

/-- The canonical pointer list of a layout starting at `off`. -/
def ptrsFrom : Nat → List Kind → List Nat → List Ptr
  | off, k :: ks, c :: cs => ⟨off, decide (k = .remaining)⟩ :: ptrsFrom (off + k.width c) ks cs
  | _, _, _ => []

/-- `resize_notification` of one field pointer after `amount` bytes were inserted at a place owned by
the field whose pointer is `src`. `none` = `RemainingBytes` saw a resize behind itself (bail). -/
def Ptr.notifyUp (p : Ptr) (src amount : Nat) : Option Ptr :=
  if src < p.addr then some { p with addr := p.addr + amount }
  else if p.incl ∧ p.addr < src then none else some p

def Ptr.notifyDown (p : Ptr) (src amount : Nat) : Option Ptr :=
  if src < p.addr then some { p with addr := p.addr - amount }
  else if p.incl ∧ p.addr < src then none else some p

def notifyUp : List Ptr → Nat → Nat → Option (List Ptr)
  | [], _, _ => some []
  | p :: ps, src, n =>
    match p.notifyUp src n with
    | none => none
    | some p' => match notifyUp ps src n with
      | none => none
      | some ps' => some (p' :: ps')

def notifyDown : List Ptr → Nat → Nat → Option (List Ptr)
  | [], _, _ => some []
  | p :: ps, src, n =>
    match p.notifyDown src n with
    | none => none
    | some p' => match notifyDown ps src n with
      | none => none
      | some ps' => some (p' :: ps')

/-! ## wrapper.rs -/

/-- `impl UnsizedTypeDataAccess for AccountInfo::data_mut`, AS IT IS NOW: returns the account (borrow
flag taken on success, restored when a later `?` drops the `RefMut`) and `(slice len, range.start, range.end)`. -/
def dataMut (a : Acct) : Acct × Res (Nat × Nat × Nat) :=
  match tryBorrowMutData a with
  | .error e => (a, .err e)
  | .ok a1 =>
    -- `i64::try_from(ptr.addr() + current_len + MAX_PERMITTED_DATA_INCREASE)?`
    if I64_MAX < ((a1.base + a1.len + MAX_INC : Nat) : Int) then (dropRefMut a1, .err .tryFromInt)
    -- `- i64::from(this.resize_delta())` (checked)
    else if I64_MAX < ((a1.base + a1.len + MAX_INC : Nat) : Int) - a1.delta then (dropRefMut a1, .panic)
    -- `usize::try_from(end)?`
    else if ((a1.base + a1.len + MAX_INC : Nat) : Int) - a1.delta < 0 then (dropRefMut a1, .err .tryFromInt)
    else (a1, .ok (a1.len, a1.base, (((a1.base + a1.len + MAX_INC : Nat) : Int) - a1.delta).toNat))

/-- The PRE-FIX formula (`+ resize_delta`), kept only for `old_formula_witness`. -/
def dataMutOld (a : Acct) : Acct × Res (Nat × Nat × Nat) :=
  match tryBorrowMutData a with
  | .error e => (a, .err e)
  | .ok a1 =>
    if I64_MAX < ((a1.base + a1.len + MAX_INC : Nat) : Int) then (dropRefMut a1, .err .tryFromInt)
    else if I64_MAX < ((a1.base + a1.len + MAX_INC : Nat) : Int) + a1.delta then (dropRefMut a1, .panic)
    else if ((a1.base + a1.len + MAX_INC : Nat) : Int) + a1.delta < 0 then (dropRefMut a1, .err .tryFromInt)
    else (a1, .ok (a1.len, a1.base, (((a1.base + a1.len + MAX_INC : Nat) : Int) + a1.delta).toNat))

/-- The live top-level exclusive wrapper: handle, `top_mut` pointers, `range`, and the length
metadata of `top_meta.data`. -/
structure Wrapper where
  h : Nat
  ptrs : List Ptr
  lo : Nat
  hi : Nat
  dlen : Nat
deriving DecidableEq, Repr

/-- `ExclusiveTopDrop::drop`'s assertion / the `debug_assert!` before each resize. -/
def Wrapper.check (w : Wrapper) : Bool := checkPointers w.lo w.hi w.lo w.ptrs

/-- Top-level `add_bytes(source_ptr = src, start, amount)`. -/
def addBytes (a : Acct) (w : Wrapper) (src start amount : Nat) : Acct × Wrapper × Res Unit :=
  if ¬ w.check then (a, w, .panic) else
  if start < a.base then (a, w, .err .pointerOutOfBounds) else
  if start > a.base + w.dlen then (a, w, .err .pointerOutOfBounds) else
  if amount = 0 then (a, w, .ok ()) else
  match resizeUnchecked a (w.dlen + amount) with
  | .err e => (a, w, .err e)
  | .panic => (a, w, .panic)
  | .ok a' _ =>
    match notifyUp w.ptrs src amount with
    | none => (a', { w with dlen := w.dlen + amount }, .err .unsizedUnexpected)
    | some ps => (a', { w with dlen := w.dlen + amount, ptrs := ps }, .ok ())

/-- Top-level `remove_bytes(source_ptr = src, start..stop)`. -/
def removeBytes (a : Acct) (w : Wrapper) (src start stop : Nat) : Acct × Wrapper × Res Unit :=
  if ¬ w.check then (a, w, .panic) else
  if start < a.base then (a, w, .err .pointerOutOfBounds) else
  if start > a.base + w.dlen then (a, w, .err .pointerOutOfBounds) else
  if stop < start then (a, w, .err .pointerOutOfBounds) else
  if stop > a.base + w.dlen then (a, w, .err .pointerOutOfBounds) else
  if stop - start = 0 then (a, w, .ok ()) else
  match resizeUnchecked a (w.dlen - (stop - start)) with
  | .err e => (a, w, .err e)
  | .panic => (a, w, .panic)
  | .ok a' _ =>
    match notifyDown w.ptrs src (stop - start) with
    | none => (a', { w with dlen := w.dlen - (stop - start) }, .err .unsizedUnexpected)
    | some ps => (a', { w with dlen := w.dlen - (stop - start), ptrs := ps }, .ok ())

/-! ## The machine: one account, its typed content, the live borrows -/

structure State where
  acct : Acct
  kinds : List Kind
  counts : List Nat
  excl : Option Wrapper
  /-- handles of the live shared borrows -/
  shared : List Nat
  next : Nat
deriving Repr

inductive Op
  | borrowMut
  | borrow
  | release (h : Nat)
  | grow (f n : Nat)
  | shrink (f n : Nat)
  | query
deriving DecidableEq, Repr

inductive Ans
  /-- exclusive borrow: handle, data_len, resize_delta, borrow byte, range relative to the data pointer, counts seen -/
  | borrowedMut (h len : Nat) (delta : Int) (bs : Nat) (lo hi : Int) (seen : List Nat)
  | borrowed (h len : Nat) (delta : Int) (bs : Nat) (seen : List Nat)
  | released (bs : Nat)
  | resized (len : Nat) (delta : Int) (counts : List Nat)
  | info (len : Nat) (delta : Int) (bs : Nat)
  | err (e : Err)
  | panic
  | badOp
deriving DecidableEq, Repr

/-- `validate_account_info`: the data-length and `can_borrow_data` checks (discriminant and owner
are assumed to match: they are C08's subject and never change in a C07 history). -/
def validateInfo (a : Acct) : Except Err Unit :=
  if a.len < DISC then .error .accountDataTooSmall
  else if ¬ canBorrowData a.borrow then .error .accountBorrowFailed
  else .ok ()

/-- `AccountDiscriminant::<T>::get_ptr` over the slice `[base, base + dlen)`. -/
def topGetPtr (s : State) (base dlen : Nat) : Except Err (List Ptr × List Nat) :=
  if dlen < DISC then .error (.advance 9) else getPtrs s.kinds s.counts (base + DISC) (base + dlen)

/-- `Account::data_mut` = writable check, `validate_account_info`, `ExclusiveWrapperTop::new`. -/
def accountDataMut (s : State) : State × Ans :=
  if ¬ s.acct.writable then (s, .err .accountBorrowFailed) else
  match validateInfo s.acct with
  | .error e => (s, .err e)
  | .ok () =>
    match dataMut s.acct with
    | (a', .err e) => ({ s with acct := a' }, .err e)
    | (a', .panic) => ({ s with acct := a' }, .panic)
    | (a', .ok (dlen, lo, hi)) =>
      match topGetPtr s a'.base dlen with
      | .error e => ({ s with acct := dropRefMut a' }, .err e)
      | .ok (ps, seen) =>
        ({ s with acct := a', excl := some { h := s.next, ptrs := ps, lo := lo, hi := hi, dlen := dlen }, next := s.next + 1 },
         .borrowedMut s.next a'.len a'.delta a'.borrow ((lo : Int) - a'.base) ((hi : Int) - a'.base) seen)

/-- `Account::data` = `validate_account_info` when writable, `SharedWrapper::new`. -/
def accountData (s : State) : State × Ans :=
  match (if s.acct.writable then validateInfo s.acct else .ok ()) with
  | .error e => (s, .err e)
  | .ok () =>
    match tryBorrowData s.acct with
    | .error e => (s, .err e)
    | .ok a' =>
      match topGetPtr s a'.base a'.len with
      | .error e => ({ s with acct := dropRef a' }, .err e)
      | .ok (_, seen) =>
        ({ s with acct := a', shared := s.next :: s.shared, next := s.next + 1 },
         .borrowed s.next a'.len a'.delta a'.borrow seen)

/-- Dropping a borrow. Exclusive: `ExclusiveTopDrop::drop` asserts the pointer check, then (also
while unwinding) the `RefMut` guard is dropped. -/
def release (s : State) (h : Nat) : State × Ans :=
  match s.excl with
  | some w =>
    if w.h = h then
      let s' := { s with acct := dropRefMut s.acct, excl := none }
      if w.check then (s', .released s'.acct.borrow) else (s', .panic)
    else if h ∈ s.shared then
      let s' := { s with acct := dropRef s.acct, shared := s.shared.erase h }
      (s', .released s'.acct.borrow)
    else (s, .badOp)
  | none =>
    if h ∈ s.shared then
      let s' := { s with acct := dropRef s.acct, shared := s.shared.erase h }
      (s', .released s'.acct.borrow)
    else (s, .badOp)

def setCount (cs : List Nat) (f c : Nat) : List Nat := cs.set f c

/-- The harness's per-op cap on `n` (lines above it are `bad-op` on both sides). -/
notation "N_CAP" => (100000 : Nat)

/-- `grow f n` through the live exclusive borrow: `List::push_all` (n bytes) / `RemainingBytes::set_len(len + n)` /
`UnsizedList::push_all` (n default elements); each is ONE `add_bytes` at the end of the field. -/
def grow (s : State) (f n : Nat) : State × Ans :=
  match s.excl with
  | none => (s, .badOp)
  | some w =>
    match s.kinds[f]?, s.counts[f]?, w.ptrs[f]? with
    | some k, some c, some p =>
      if k.isSized ∨ n > N_CAP then (s, .badOp)
      else if k = .remaining ∧ n = 0 then (s, .resized s.acct.len s.acct.delta s.counts)  -- set_len: Ordering::Equal
      else
        match addBytes s.acct w p.addr (p.addr + k.width c) (k.unit * n) with
        | (a', w', .ok ()) =>
          let s' := { s with acct := a', excl := some w', counts := setCount s.counts f (c + n) }
          (s', .resized a'.len a'.delta s'.counts)
        | (a', w', .err e) => ({ s with acct := a', excl := some w' }, .err e)
        | (a', w', .panic) => ({ s with acct := a', excl := some w' }, .panic)
    | _, _, _ => (s, .badOp)

/-- The byte span removed by `shrink f n`: `List::remove_range(0..n)`, `RemainingBytes::set_len(len - n)`,
`UnsizedList::remove_range(0..n)` (which is `clear()` when `n` = the element count). -/
def shrinkSpan (k : Kind) (p c n : Nat) : Nat × Nat :=
  match k with
  | .sized _ => (p, p)
  | .list => (p + 4, p + 4 + n)
  | .remaining => (p + (c - n), p + c)
  | .ulist => if n = c then (p + 12, p + 12 + 8 * c) else (p + 12 + 4 * c - 4 * n, p + 12 + 4 * c + 4 * n)

def shrink (s : State) (f n : Nat) : State × Ans :=
  match s.excl with
  | none => (s, .badOp)
  | some w =>
    match s.kinds[f]?, s.counts[f]?, w.ptrs[f]? with
    | some k, some c, some p =>
      if k.isSized ∨ n > N_CAP ∨ n > c then (s, .badOp)
      else if k = .remaining ∧ n = 0 then (s, .resized s.acct.len s.acct.delta s.counts)
      else
        match removeBytes s.acct w p.addr (shrinkSpan k p.addr c n).1 (shrinkSpan k p.addr c n).2 with
        | (a', w', .ok ()) =>
          let s' := { s with acct := a', excl := some w', counts := setCount s.counts f (c - n) }
          (s', .resized a'.len a'.delta s'.counts)
        | (a', w', .err e) => ({ s with acct := a', excl := some w' }, .err e)
        | (a', w', .panic) => ({ s with acct := a', excl := some w' }, .panic)
    | _, _, _ => (s, .badOp)

def step (s : State) : Op → State × Ans
  | .borrowMut => accountDataMut s
  | .borrow => accountData s
  | .release h => release s h
  | .grow f n => grow s f n
  | .shrink f n => shrink s f n
  | .query => (s, .info s.acct.len s.acct.delta s.acct.borrow)

/-- Run a history; returns the final state and, per op, the state it ran in and its answer. -/
def run : State → List Op → State × List (State × Op × Ans)
  | s, [] => (s, [])
  | s, op :: ops =>
    let (s', a) := step s op
    let (sf, tr) := run s' ops
    (sf, (s, op, a) :: tr)

/-- A fresh account at instruction start: `len = orig`, `resize_delta = 0`, borrow byte `0xFF`. -/
def mkState (base : Nat) (writable : Bool) (kinds : List Kind) (counts : List Nat) (len : Nat) : State :=
  { acct := { orig := len, len := len, delta := 0, borrow := 255, base := base, writable := writable },
    kinds := kinds, counts := counts, excl := none, shared := [], next := 0 }

/-- Serialized size of a layout (with the discriminant). -/
def layoutLen : List Kind → List Nat → Nat
  | k :: ks, c :: cs => k.width c + layoutLen ks cs
  | _, _ => 0

end Unsized.Runtime
