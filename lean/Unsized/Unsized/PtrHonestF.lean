import Unsized.PtrHonestE
namespace Unsized.Ptr
open Common Unsized Unsized.Text Unsized.Machine Unsized.PtrT

/-- Geometry of one step: the child lies inside the value; an element lies behind the list header. -/
theorem step_geom (s : Shape) (v : Val) (st : Step) (t1 : Shape) (u1 : Val) (g : Good s v)
    (h1 : resolve1 s v st = .ok (t1, u1)) :
    size s v = (stepPre s v st 0).length + size t1 u1 + (stepPost s v st).length
    ∧ (∀ i, st = .elem i → 12 ≤ (stepPre s v st 0).length) := by
  obtain ⟨g1, henc, hlen, hchild⟩ := step_facts s v st t1 u1 g h1
  clear hchild
  refine ⟨?_, ?_⟩
  · rw [← encode_size_all s v g.valid, ← encode_size_all t1 u1 g1.valid]
    conv => lhs; rw [henc]
    simp only [List.length_append]; rw [hlen (encode t1 u1).length 0]
  · unfold resolve1 at h1
    split at h1
    · intro i hi; cases hi
    · rename_i e vs j
      intro i hi
      have hkeys : ∀ k ∈ vs.map (fun _ => ([] : List Nat)), k.length = 0 := by
        intro k hk; obtain ⟨_, _, rfl⟩ := List.mem_map.1 hk; rfl
      simp only [stepPre, List.length_append]
      rw [uHdrOf_length 0 _ _ (by simp) hkeys]; omega
    · rename_i kw e es j
      intro i hi
      have hv := g.valid
      simp only [valid, Bool.and_eq_true] at hv
      have hkeys : ∀ k ∈ es.map (·.1), k.length = kw := by
        intro k hk; obtain ⟨kv, hkv, rfl⟩ := List.mem_map.1 hk
        have := (List.all_eq_true.1 hv.1) kv hkv
        simp only [Bool.and_eq_true, beq_iff_eq] at this; exact this.1.1
      simp only [stepPre, List.length_append]
      rw [uHdrOf_length kw _ _ (by simp) hkeys]; omega
    · intro i hi; cases hi
    · cases h1

theorem struct_pre_len (sized : List Fixed) (fs : List Shape) (sz : List Nat) (vs : List Val) (i : Nat)
    (g : Good (.struct sized fs) (.record sz vs)) :
    (stepPre (.struct sized fs) (.record sz vs) (.field i) 0).length
      = Fixed.sizeList sized + sizeFields (fs.take i) (vs.take i) := by
  have hv := g.valid
  simp only [valid, Bool.and_eq_true, beq_iff_eq, decide_eq_true_eq] at hv
  simp only [stepPre, List.length_append, sizeFields_enc _ _ (validFields_take fs vs i hv.2), hv.1.1.1]

/-- Closing the hole with an honest child gives an honest object. -/
theorem step_fill (s : Shape) (v : Val) (st : Step) (t1 : Shape) (u1 : Val) (g : Good s v)
    (h1 : resolve1 s v st = .ok (t1, u1)) (b : Nat) (R child : PtrTree) (hR : HonStep s v st b R child)
    (hc : Hon t1 u1 (b + (stepPre s v st 0).length) child) : Hon s v b R := by
  obtain ⟨hgeo, hel⟩ := step_geom s v st t1 u1 g h1
  have g1 := (step_facts s v st t1 u1 g h1).1
  have h1' := h1
  unfold resolve1 at h1
  split at h1
  · rename_i sized fs sz vs i
    split at h1
    · rename_i f x hf hx
      cases h1
      have hv := g.valid
      simp only [valid, Bool.and_eq_true, beq_iff_eq, decide_eq_true_eq] at hv
      rw [struct_pre_len sized fs sz vs i g, ← Nat.add_assoc] at hc
      simp only [HonStep] at hR
      obtain ⟨ks, hks, rfl⟩ := hR
      simp only [Hon]
      exact ⟨ks.set i child, rfl, honL_set fs vs i t1 u1 _ ks child hf hx (validFields_length fs vs hv.2) hks hc⟩
    · cases h1
  · rename_i e vs i
    split at h1
    · cases h1
      simp only [HonStep] at hR
      obtain ⟨pmb, rfl⟩ := hR
      simp only [Hon]
      have := hel i rfl
      exact ⟨_, pmb, rfl, Or.inr ⟨child, u1, _, rfl, g1, by omega, by omega, hc⟩⟩
    · cases h1
  · rename_i kw e es i
    split at h1
    · cases h1
      simp only [HonStep] at hR
      obtain ⟨pmb, rfl⟩ := hR
      simp only [Hon]
      have := hel i rfl
      exact ⟨_, pmb, rfl, Or.inr ⟨child, _, _, rfl, g1, by omega, by omega, hc⟩⟩
    · cases h1
  · rename_i ds ps idx pl
    split at h1
    · cases h1
    · cases h1
    · rename_i t' hnu ht
      cases h1
      simp only [HonStep] at hR
      subst hR
      simp only [stepPre, List.length_singleton] at hc
      simp only [Hon]
      exact ⟨_, rfl, (honV_some ps idx t1 u1 (b + 1) _ ht (fun h => hnu (by rw [h]))).2 ⟨child, rfl, hc⟩⟩
  · cases h1

/-- Taking a field / the payload of an honest object (no side effect). -/
theorem step_open (s : Shape) (v : Val) (st : Step) (t1 : Shape) (u1 : Val) (g : Good s v)
    (h1 : resolve1 s v st = .ok (t1, u1)) (hne : ∀ i, st ≠ .elem i) (b : Nat) (R : PtrTree) (hR : Hon s v b R) :
    ∃ child, HonStep s v st b R child ∧ Hon t1 u1 (b + (stepPre s v st 0).length) child := by
  have h1' := h1
  unfold resolve1 at h1
  split at h1
  · rename_i sized fs sz vs i
    split at h1
    · rename_i f x hf hx
      cases h1
      rw [struct_pre_len sized fs sz vs i g, ← Nat.add_assoc]
      simp only [Hon] at hR
      obtain ⟨ks, rfl, hks⟩ := hR
      obtain ⟨k, _, hk, hset⟩ := honL_get fs vs i t1 u1 _ ks hf hx hks
      refine ⟨k, ?_, hk⟩
      simp only [HonStep]
      exact ⟨ks, hks, by rw [hset]⟩
    · cases h1
  · exact absurd rfl (hne _)
  · exact absurd rfl (hne _)
  · rename_i ds ps idx pl
    split at h1
    · cases h1
    · cases h1
    · rename_i t' hnu ht
      cases h1
      simp only [Hon] at hR
      obtain ⟨po, rfl, hpo⟩ := hR
      rw [honV_some ps idx t1 u1 (b + 1) po ht (fun h => hnu (by rw [h]))] at hpo
      obtain ⟨k, rfl, hk⟩ := hpo
      exact ⟨k, by simp only [HonStep], by simpa [stepPre] using hk⟩
  · cases h1

/-- Navigation inside the pointer object: the child is where `tstep` says, and can be replaced. -/
theorem step_nav (s : Shape) (v : Val) (st : Step) (t1 : Shape) (u1 : Val) (g : Good s v)
    (h1 : resolve1 s v st = .ok (t1, u1)) (b : Nat) (R child : PtrTree) (hR : HonStep s v st b R child) :
    subtreeAt R (tstep s st) = some child
    ∧ ∀ c', ∃ R', replaceAt R (tstep s st) c' = some R' ∧ HonStep s v st b R' c' := by
  unfold resolve1 at h1
  split at h1
  · rename_i sized fs sz vs i
    split at h1
    · rename_i f x hf hx
      cases h1
      have hv := g.valid
      simp only [valid, Bool.and_eq_true, beq_iff_eq, decide_eq_true_eq] at hv
      have hif : i < fs.length := by
        rcases Nat.lt_or_ge i fs.length with h | h
        · exact h
        · simp [List.getElem?_eq_none h] at hf
      simp only [HonStep] at hR
      obtain ⟨ks, hks, rfl⟩ := hR
      have hlen : i < ks.length := by rw [honL_length fs vs _ ks (validFields_length fs vs hv.2) hks]; exact hif
      by_cases he : sized.isEmpty = true
      · simp only [he, if_true, tstep, subtreeAt, replaceAt, List.getElem?_set_self hlen]
        refine ⟨trivial, fun c' => ⟨_, rfl, ?_⟩⟩
        simp only [HonStep]
        exact ⟨ks, hks, by simp [he, List.set_set]⟩
      · simp only [he, Bool.false_eq_true, if_false, tstep, subtreeAt, replaceAt, List.getElem?_cons_succ,
          List.getElem?_set_self hlen]
        refine ⟨trivial, fun c' => ⟨_, rfl, ?_⟩⟩
        simp only [HonStep]
        exact ⟨ks, hks, by simp [he, List.set_set]⟩
    · cases h1
  · rename_i e vs i
    split at h1
    · cases h1
      simp only [HonStep] at hR
      obtain ⟨pmb, rfl⟩ := hR
      simp only [tstep, subtreeAt, replaceAt]
      exact ⟨trivial, fun c' => ⟨_, rfl, by simp only [HonStep]; exact ⟨pmb, rfl⟩⟩⟩
    · cases h1
  · rename_i kw e es i
    split at h1
    · cases h1
      simp only [HonStep] at hR
      obtain ⟨pmb, rfl⟩ := hR
      simp only [tstep, subtreeAt, replaceAt, List.getElem?_cons_zero, List.set_cons_zero]
      exact ⟨trivial, fun c' => ⟨_, rfl, by simp only [HonStep]; exact ⟨pmb, rfl⟩⟩⟩
    · cases h1
  · rename_i ds ps idx pl
    split at h1
    · cases h1
    · cases h1
    · cases h1
      simp only [HonStep] at hR
      subst hR
      simp only [tstep, subtreeAt, replaceAt]
      exact ⟨trivial, fun c' => ⟨_, rfl, by simp only [HonStep]⟩⟩
  · cases h1

end Unsized.Ptr
