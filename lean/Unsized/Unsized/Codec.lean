import Unsized.Shape
/-!
# Codec of the unsized-type system: owned values, serialization, parsing, read-side views

Model of (file references are to `/repo/star_frame/src/unsize/…`):

* `Val`      — the owned value (`UnsizedType::Owned`) of any shape;
* `valid`    — what the Rust *types* guarantee about an owned value (record widths, bit-pattern
               validity classes, strict key order of `BTreeSet/BTreeMap`, UTF-8 of `String`);
  `fits`     — counts fit their length prefix (`L::from_usize(len)`, `u32::try_from`);
  `WF`       — `valid ∧ fits`: the values for which `from_owned` succeeds;
* `size`     — `FromOwned::byte_size` (and the count `from_owned` returns: same formula in the code);
* `encode`   — the bytes `FromOwned::from_owned` writes;
* `extent`   — `UnsizedType::get_ptr`: how many bytes the parse covers, or the error it raises —
               same checks, in the same order, as the `try_advance` chain of every impl;
* `own`      — `UnsizedType::owned_from_ptr` on a pointer obtained from the same bytes;
* `decode`   — `UnsizedType::owned` = `get_ptr` then `owned_from_ptr`;
* `view`     — the read-side APIs reached through `SharedWrapper`/`ExclusiveWrapper`
               (`get(i)` / `get_mut(i)` / iteration), rendering what they expose as a `Val`;
* `Init`, `initSize`, `initBytes`, `denote` — `UnsizedInit::{INIT_BYTES, init}` and the value an
               initializer denotes;
* `serializeAccount`, `deserializeAccount`, `checkDiscriminant` — `client.rs` 109–160.

Errors are the classes of `star_frame::ErrorCode` the parsers raise; `E.panic` is a controlled
Rust panic; `E.ub` marks an out-of-bounds *raw* read (`slice::from_raw_parts` and DST pointer
dereferences, modelled by `rawSlice`) — `Unsized.C04.reads_in_bounds` proves it is never produced.

All recursion is structural on `Shape` (helpers over `List Shape`); `Val` is plain data.
-/
namespace Unsized
open Common

/-- Error classes (`err:<Class>` in the line protocol). -/
inductive E where
  /-- `ErrorCode::RawSliceAdvance` — `RawSliceAdvance::try_advance` past the end (`mod.rs` 111–127). -/
  | advance
  /-- `ErrorCode::AdvanceError` — `advancer::Advance::try_advance` on a safe slice. -/
  | advancer
  /-- `ProgramError::InvalidAccountData` — unknown enum discriminant (`enum_impl.rs` 454–469). -/
  | invalidData
  /-- `ErrorCode::CheckedCastError` — invalid bit pattern (`checked.rs` 73–84, `list.rs` 396). -/
  | checkedCast
  /-- `ErrorCode::Utf8Error` — `UnsizedString::as_str`. -/
  | utf8
  /-- `ErrorCode::PointerOutOfBounds` — the error item of the `UnsizedList` iterator. -/
  | oob
  /-- `ErrorCode::DiscriminantMismatch` — `client.rs` `check_discriminant`. -/
  | discMismatch
  /-- `ErrorCode::ToPrimitiveError` — a list length that does not fit its length type
  (`list.rs` `from_owned_from_iter`, since the fix "List::from_owned returns an error instead of
  panicking…"). -/
  | toPrimitive
  /-- `ErrorCode::TryFromIntError` — a `u32::try_from` of `UnsizedList` (≥ 2^32 elements / bytes). -/
  | tryFromInt
  /-- a controlled panic (slice index out of range, `expect`, arithmetic overflow check). -/
  | panic
  /-- an out-of-bounds raw read. Never produced (theorem `reads_in_bounds`). -/
  | ub
  deriving Repr, DecidableEq, Inhabited

def E.name : E → String
  | .advance => "err:RawSliceAdvance"
  | .advancer => "err:AdvanceError"
  | .invalidData => "err:InvalidAccountData"
  | .checkedCast => "err:CheckedCastError"
  | .utf8 => "err:Utf8Error"
  | .oob => "err:PointerOutOfBounds"
  | .discMismatch => "err:DiscriminantMismatch"
  | .toPrimitive => "err:ToPrimitiveError"
  | .tryFromInt => "err:TryFromIntError"
  | .panic => "panic"
  | .ub => "UB"

/-- Owned values. Which constructor belongs to which shape:
`fixed`/`str`/`rem` ↦ `bytes`; `list`/`set` ↦ `seq` of element records; `map` ↦ `seq` of entries
`key ++ val`; `ulist` ↦ `useq`; `umap` ↦ `umap` of `(key bytes, value)`; `struct` ↦ `record`
(bytes of the sized part, then the unsized fields); `enum` ↦ `variant idx payload`
(`idx` = position in the shape's variant list, payload `unit` for unit variants). -/
inductive Val where
  | bytes (l : List Nat)
  | seq (es : List (List Nat))
  | useq (es : List Val)
  | umap (es : List (List Nat × Val))
  | record (sized : List Nat) (fs : List Val)
  | variant (idx : Nat) (payload : Val)
  | unit
  deriving Repr, Inhabited

/-! ## Small byte-list helpers -/

/-- `k` consecutive records of width `w` cut from `l` (short at the end if `l` is). -/
def chunks (w : Nat) : Nat → List Nat → List (List Nat)
  | 0, _ => []
  | k + 1, l => l.take w :: chunks w k (l.drop w)

/-- Running sums: the offset of each element given the element sizes. -/
def offsets : List Nat → Nat → List Nat
  | [], _ => []
  | s :: ss, acc => acc :: offsets ss (acc + s)

/-- A raw (unchecked) read of `n` bytes at `off`: `E.ub` when it leaves the buffer. -/
def rawSlice (bs : List Nat) (off n : Nat) : Except E (List Nat) :=
  if off + n ≤ bs.length then .ok ((bs.drop off).take n) else .error .ub

/-- `core::str::from_utf8` acceptance: the well-formed byte sequences of Unicode Table 3-7.
`pend` continuation bytes are still expected, the next one within `[lo, hi]`. -/
def utf8Go : (pend lo hi : Nat) → List Nat → Bool
  | 0, _, _, [] => true
  | _ + 1, _, _, [] => false
  | 0, _, _, b :: bs =>
      if b < 0x80 then utf8Go 0 0 0 bs
      else if 0xC2 ≤ b ∧ b ≤ 0xDF then utf8Go 1 0x80 0xBF bs
      else if b = 0xE0 then utf8Go 2 0xA0 0xBF bs
      else if (0xE1 ≤ b ∧ b ≤ 0xEC) ∨ b = 0xEE ∨ b = 0xEF then utf8Go 2 0x80 0xBF bs
      else if b = 0xED then utf8Go 2 0x80 0x9F bs
      else if b = 0xF0 then utf8Go 3 0x90 0xBF bs
      else if 0xF1 ≤ b ∧ b ≤ 0xF3 then utf8Go 3 0x80 0xBF bs
      else if b = 0xF4 then utf8Go 3 0x80 0x8F bs
      else false
  | p + 1, lo, hi, b :: bs => if lo ≤ b ∧ b ≤ hi then utf8Go p 0x80 0xBF bs else false

def utf8Valid (l : List Nat) : Bool := utf8Go 0 0 0 l

/-- Key of an entry: the first `kw` bytes as an unsigned little-endian integer. -/
def keyOf (kw : Nat) (x : List Nat) : Nat := rdLE (x.take kw)

/-- `BTreeMap::insert` / `BTreeSet::insert` on the sorted entry list (entries `key ++ val`, key =
first `kw` bytes): an equal key has its value replaced. -/
def insKey (kw : Nat) (x : List Nat) : List (List Nat) → List (List Nat)
  | [] => [x]
  | y :: ys =>
      if keyOf kw x < keyOf kw y then x :: y :: ys
      else if keyOf kw x = keyOf kw y then x :: ys
      else y :: insKey kw x ys

/-- Collecting into a `BTreeMap`/`BTreeSet` (later duplicates win). -/
def fromEntries (kw : Nat) (es : List (List Nat)) : List (List Nat) :=
  es.foldl (fun acc x => insKey kw x acc) []

/-- `BTreeMap<K, V::Owned>::insert` for `UnsizedMap`. -/
def insKV {α : Type} (k : List Nat) (v : α) : List (List Nat × α) → List (List Nat × α)
  | [] => [(k, v)]
  | y :: ys =>
      if rdLE k < rdLE y.1 then (k, v) :: y :: ys
      else if rdLE k = rdLE y.1 then (k, v) :: ys
      else y :: insKV k v ys

def fromKVs {α : Type} (es : List (List Nat × α)) : List (List Nat × α) :=
  es.foldl (fun acc kv => insKV kv.1 kv.2 acc) []

/-- Strictly increasing keys (`<` is transitive, so pairwise = adjacent). -/
def strictKeys (l : List Nat) : Bool := decide (l.Pairwise (· < ·))

/-! ## `valid`, `fits`, `WF` -/

mutual
/-- What the Rust owned types guarantee. -/
def valid : Shape → Val → Bool
  | .fixed f, .bytes l => l.length == f.size && f.valid l && decide (BytesWF l)
  | .list e _, .seq es => es.all (fun x => x.length == e.size && e.valid x && decide (BytesWF x))
  | .set e _, .seq es =>
      es.all (fun x => x.length == e.size && e.valid x && decide (BytesWF x))
        && strictKeys (es.map (keyOf e.size))
  | .map kw v _, .seq es =>
      es.all (fun x => x.length == kw + v.size && v.valid (x.drop kw) && decide (BytesWF x))
        && strictKeys (es.map (keyOf kw))
  | .str _, .bytes l => utf8Valid l && decide (BytesWF l)
  | .rem, .bytes l => decide (BytesWF l)
  | .ulist e, .useq vs => vs.all (valid e)
  | .umap kw e, .umap es =>
      es.all (fun kv => kv.1.length == kw && decide (BytesWF kv.1) && valid e kv.2)
        && strictKeys (es.map (fun kv => rdLE kv.1))
  | .struct sized fs, .record sz vs =>
      sz.length == Fixed.sizeList sized && Fixed.validList sized sz && decide (BytesWF sz)
        && validFields fs vs
  | .enum ds ps, .variant i p => decide (i < ds.length) && validVariant ps i p
  | .unit, .unit => true
  | .disc _ inner, v => valid inner v
  | _, _ => false
def validFields : List Shape → List Val → Bool
  | [], [] => true
  | f :: fs, v :: vs => valid f v && validFields fs vs
  | _, _ => false
def validVariant : List Shape → Nat → Val → Bool
  | p :: _, 0, v => valid p v
  | _ :: ps, i + 1, v => validVariant ps i v
  | [], _, _ => false
end

mutual
/-- `valid` without the key-order and byte-range requirements: what must hold of a value that a
*view* exposes (containers in stored order): widths, bit-pattern validity classes, UTF-8, known
enum variants. -/
def bitsOk : Shape → Val → Bool
  | .fixed f, .bytes l => l.length == f.size && f.valid l
  | .list e _, .seq es => es.all (fun x => x.length == e.size && e.valid x)
  | .set e _, .seq es => es.all (fun x => x.length == e.size && e.valid x)
  | .map kw v _, .seq es => es.all (fun x => x.length == kw + v.size && v.valid (x.drop kw))
  | .str _, .bytes l => utf8Valid l
  | .rem, .bytes _ => true
  | .ulist e, .useq vs => vs.all (bitsOk e)
  | .umap kw e, .umap es => es.all (fun kv => kv.1.length == kw && bitsOk e kv.2)
  | .struct sized fs, .record sz vs =>
      sz.length == Fixed.sizeList sized && Fixed.validList sized sz && bitsOkFields fs vs
  | .enum ds ps, .variant i p => decide (i < ds.length) && bitsOkVariant ps i p
  | .unit, .unit => true
  | .disc _ inner, v => bitsOk inner v
  | _, _ => false
def bitsOkFields : List Shape → List Val → Bool
  | [], [] => true
  | f :: fs, v :: vs => bitsOk f v && bitsOkFields fs vs
  | _, _ => false
def bitsOkVariant : List Shape → Nat → Val → Bool
  | p :: _, 0, v => bitsOk p v
  | _ :: ps, i + 1, v => bitsOkVariant ps i v
  | [], _, _ => false
end

mutual
/-- `FromOwned::byte_size` — also the count `from_owned` returns (`list.rs` 429–450,
`unsized_list.rs` 103–168, `struct_impl.rs` 534–586, `enum_impl.rs` 285–349, `account.rs` 218–236). -/
def size : Shape → Val → Nat
  | .fixed f, _ => f.size
  | .list e lw, .seq es => lw + e.size * es.length
  | .set e lw, .seq es => lw + e.size * es.length
  | .map kw v lw, .seq es => lw + (kw + v.size) * es.length
  | .str lw, .bytes l => lw + 1 * l.length
  | .rem, .bytes l => l.length
  | .ulist e, .useq vs => 4 + 4 + vs.length * 4 + 4 + (vs.map (size e)).sum
  | .umap kw e, .umap es =>
      4 + 4 + es.length * Shape.entryW kw + 4 + (es.map (fun kv => size e kv.2)).sum
  | .struct sized fs, .record _ vs => Fixed.sizeList sized + sizeFields fs vs
  | .enum _ ps, .variant i p => 1 + sizeVariant ps i p
  | .unit, _ => 0
  | .disc d inner, v => size inner v + d.length
  | _, _ => 0
def sizeFields : List Shape → List Val → Nat
  | f :: fs, v :: vs => size f v + sizeFields fs vs
  | _, _ => 0
def sizeVariant : List Shape → Nat → Val → Nat
  | p :: _, 0, v => size p v
  | _ :: ps, i + 1, v => sizeVariant ps i v
  | [], _, _ => 0
end

mutual
/-- Counts fit their prefixes: `L::from_usize(len)` (`list.rs` 428), `u32::try_from(len)`,
`u32::try_from(unsized_bytes_written)` and the `u32` offsets (`unsized_list.rs` 122, 160–165);
and the element bytes of a list fit in `usize` (always true of a real `Vec`; `get_ptr` multiplies
`size_of::<T>() * len` with overflow checks). -/
def fits : Shape → Val → Bool
  | .list e lw, .seq es =>
      decide (es.length < 256 ^ lw) && decide (e.size * es.length < Shape.usizeLim)
  | .set e lw, .seq es =>
      decide (es.length < 256 ^ lw) && decide (e.size * es.length < Shape.usizeLim)
  | .map kw v lw, .seq es =>
      decide (es.length < 256 ^ lw) && decide ((kw + v.size) * es.length < Shape.usizeLim)
  | .str lw, .bytes l => decide (l.length < 256 ^ lw) && decide (1 * l.length < Shape.usizeLim)
  | .ulist e, .useq vs =>
      decide (vs.length < Shape.u32Lim) && decide ((vs.map (size e)).sum < Shape.u32Lim)
        && vs.all (fits e)
  | .umap _ e, .umap es =>
      decide (es.length < Shape.u32Lim)
        && decide ((es.map (fun kv => size e kv.2)).sum < Shape.u32Lim)
        && es.all (fun kv => fits e kv.2)
  | .struct _ fs, .record _ vs => fitsFields fs vs
  | .enum _ ps, .variant i p => fitsVariant ps i p
  | .disc _ inner, v => fits inner v
  | _, _ => true
def fitsFields : List Shape → List Val → Bool
  | f :: fs, v :: vs => fits f v && fitsFields fs vs
  | _, _ => true
def fitsVariant : List Shape → Nat → Val → Bool
  | p :: _, 0, v => fits p v
  | _ :: ps, i + 1, v => fitsVariant ps i v
  | [], _, _ => true
end

/-- The owned values `from_owned` serializes without error. -/
def WF (s : Shape) (v : Val) : Bool := valid s v && fits s v

/-! ## `encode` -/

mutual
/-- The bytes `FromOwned::from_owned` writes. -/
def encode : Shape → Val → List Nat
  | .fixed _, .bytes l => l
  | .list _ lw, .seq es => leN lw es.length ++ es.flatten
  | .set _ lw, .seq es => leN lw es.length ++ es.flatten
  | .map _ _ lw, .seq es => leN lw es.length ++ es.flatten
  | .str lw, .bytes l => leN lw l.length ++ l
  | .rem, .bytes l => l
  | .ulist e, .useq vs =>
      let encs := vs.map (encode e)
      let sizes := encs.map List.length
      leN 4 sizes.sum ++ leN 4 vs.length ++ ((offsets sizes 0).map (leN 4)).flatten
        ++ leN 4 vs.length ++ encs.flatten
  | .umap _ e, .umap es =>
      let encs := es.map (fun kv => encode e kv.2)
      let sizes := encs.map List.length
      leN 4 sizes.sum ++ leN 4 es.length
        ++ (List.zipWith (fun o (kv : List Nat × Val) => leN 4 o ++ kv.1) (offsets sizes 0) es).flatten
        ++ leN 4 es.length ++ encs.flatten
  | .struct _ fs, .record sz vs => sz ++ encodeFields fs vs
  | .enum ds ps, .variant i p => encodeVariant ds ps i p
  | .unit, _ => []
  | .disc d inner, v => d ++ encode inner v
  | _, _ => []
def encodeFields : List Shape → List Val → List Nat
  | f :: fs, v :: vs => encode f v ++ encodeFields fs vs
  | _, _ => []
def encodeVariant : List Nat → List Shape → Nat → Val → List Nat
  | d :: _, p :: _, 0, v => d :: encode p v
  | _ :: ds, _ :: ps, i + 1, v => encodeVariant ds ps i v
  | _, _, _, _ => []
end

/-- The first element (in write order) that reports an unfit length, as an offset added to the
sizes of the elements written before it. -/
def firstUnfit (sz : Val → Nat) (u : Val → Option Nat) : List Val → Option Nat
  | [] => none
  | v :: vs => match u v with
    | some p => some p
    | none => (firstUnfit sz u vs).map (· + sz v)

mutual
/-- Where `from_owned` meets the first `List`/`Set`/`Map`/`UnsizedString` whose element count does
not fit its length type `L`: the offset of that list in the would-be encoding = the number of
bytes already advanced over when `L::from_usize(len)` fails (`list.rs` `from_owned_from_iter`
checks BEFORE advancing over the prefix; `UnsizedList` has advanced over its whole header and
offset table before it writes elements; structs write the sized part first; enums advance over
the discriminant first; `AccountDiscriminant` over the prefix). `none`: every count fits. -/
def unfitPos : Shape → Val → Option Nat
  | .list _ lw, .seq es => if es.length < 256 ^ lw then none else some 0
  | .set _ lw, .seq es => if es.length < 256 ^ lw then none else some 0
  | .map _ _ lw, .seq es => if es.length < 256 ^ lw then none else some 0
  | .str lw, .bytes l => if l.length < 256 ^ lw then none else some 0
  | .ulist e, .useq vs => (firstUnfit (size e) (unfitPos e) vs).map (· + (12 + vs.length * 4))
  | .umap kw e, .umap es =>
      (firstUnfit (size e) (unfitPos e) (es.map (·.2))).map (· + (12 + es.length * Shape.entryW kw))
  | .struct sized fs, .record _ vs => (unfitFields fs vs).map (· + Fixed.sizeList sized)
  | .enum _ ps, .variant i p => (unfitVariant ps i p).map (· + 1)
  | .disc d inner, v => (unfitPos inner v).map (· + d.length)
  | _, _ => none
def unfitFields : List Shape → List Val → Option Nat
  | f :: fs, v :: vs => match unfitPos f v with
    | some p => some p
    | none => (unfitFields fs vs).map (· + size f v)
  | _, _ => none
def unfitVariant : List Shape → Nat → Val → Option Nat
  | p :: _, 0, v => unfitPos p v
  | _ :: ps, i + 1, v => unfitVariant ps i v
  | [], _, _ => none
end

/-- `FromOwned::from_owned` into a buffer of `cap` bytes: the bytes written and the returned
count. A length that does not fit its prefix type is `ToPrimitiveError` — raised when the walk
reaches that list, i.e. only if the `unfitPos` bytes before it fitted the buffer (else an earlier
advance already failed with `AdvanceError`); `AdvanceError` when the buffer is short; the `u32`
overflows of `UnsizedList` (≥ 4 GiB, never exercised) are `TryFromIntError`. -/
def fromOwned (s : Shape) (v : Val) (cap : Nat) : Except E (List Nat × Nat) :=
  match unfitPos s v with
  | some p => if p ≤ cap then .error .toPrimitive else .error .advancer
  | none =>
    if !fits s v then .error .tryFromInt
    else if cap < size s v then .error .advancer
    else .ok (encode s v, size s v)

/-! ## `extent` (= `get_ptr`) -/

/-- `get_ptr` of a `CheckedBitPattern` type (`checked.rs` 71–84). -/
def extentFixed (f : Fixed) (bs : List Nat) : Except E Nat :=
  if f.size ≤ bs.length then
    if f.valid (bs.take f.size) then .ok f.size else .error .checkedCast
  else .error .advance

/-- `List::<T, L>::get_ptr` (`list.rs` 356–384); `ew = size_of::<T>()`. The element bytes are NOT
validated here. `ew * len` is a checked multiplication (`overflow-checks = true`). -/
def extentList (ew lw : Nat) (bs : List Nat) : Except E Nat :=
  if lw ≤ bs.length then
    let len := rdLE (bs.take lw)
    if Shape.usizeLim ≤ ew * len then .error .panic
    else if ew * len ≤ bs.length - lw then .ok (lw + ew * len) else .error .advance
  else .error .advance

/-- `UnsizedList::<T, C>::get_ptr` (`unsized_list.rs` 539–601); `cw = size_of::<C>()`. Neither the
length copy nor the offsets are validated here. -/
def extentUlist (cw : Nat) (bs : List Nat) : Except E Nat :=
  if 4 ≤ bs.length then
    let usz := rdLE (bs.take 4)
    if 4 ≤ bs.length - 4 then
      let len := rdLE ((bs.drop 4).take 4)
      if len * cw ≤ bs.length - 8 then
        if 4 ≤ bs.length - 8 - len * cw then
          if usz ≤ bs.length - 8 - len * cw - 4 then .ok (4 + 4 + len * cw + 4 + usz)
          else .error .advance
        else .error .advance
      else .error .advance
    else .error .advance
  else .error .advance

mutual
/-- `UnsizedType::get_ptr`: the number of bytes the value occupies (`data_len` of the pointer),
or the first error of the `try_advance` chain. -/
def extent : Shape → List Nat → Except E Nat
  | .fixed f, bs => extentFixed f bs
  | .list e lw, bs => extentList e.size lw bs
  | .set e lw, bs => extentList e.size lw bs
  | .map kw v lw, bs => extentList (kw + v.size) lw bs
  | .str lw, bs => extentList 1 lw bs
  | .rem, bs => .ok bs.length
  | .ulist _, bs => extentUlist 4 bs
  | .umap kw _, bs => extentUlist (Shape.entryW kw) bs
  | .struct sized fs, bs =>
      if sized.isEmpty then extentFields fs bs
      else match extentFixed (.record sized) bs with
        | .error e => .error e
        | .ok n => match extentFields fs (bs.drop n) with
          | .error e => .error e
          | .ok m => .ok (n + m)
  | .enum ds ps, bs =>
      match bs with
      | [] => .error .advance
      | r :: rest => match extentVariant ds ps r rest with
        | .error e => .error e
        | .ok n => .ok (1 + n)
  | .unit, _ => .ok 0
  | .disc d inner, bs =>
      if d.length ≤ bs.length then
        match extent inner (bs.drop d.length) with
        | .error e => .error e
        | .ok n => .ok (d.length + n)
      else .error .advance
def extentFields : List Shape → List Nat → Except E Nat
  | [], _ => .ok 0
  | f :: fs, bs => match extent f bs with
    | .error e => .error e
    | .ok n => match extentFields fs (bs.drop n) with
      | .error e => .error e
      | .ok m => .ok (n + m)
/-- The `match repr { D1 => …, … , _ => bail!(InvalidAccountData) }` of `enum_impl.rs`. -/
def extentVariant : List Nat → List Shape → Nat → List Nat → Except E Nat
  | d :: ds, p :: ps, r, bs => if r = d then extent p bs else extentVariant ds ps r bs
  | _, _, _, _ => .error .invalidData
end

/-! ## Offset-table driven element access of `UnsizedList` -/

/-- The offset table: `len` entries of width `cw`, each `le32 offset ++ key`. -/
def parseTable (cw len : Nat) (tbl : List Nat) : List (Nat × List Nat) :=
  (chunks cw len tbl).map (fun c => (rdLE (c.take 4), c.drop 4))

/-- `get_unsized_range` for every index: `(offset[i], offset[i+1])`, the last one up to
`unsized_size` (`unsized_list.rs` 345–353). -/
def ranges : List Nat → Nat → List (Nat × Nat)
  | [], _ => []
  | [o], usz => [(o, usz)]
  | o :: o' :: os, usz => (o, o') :: ranges (o' :: os) usz

/-- How an element slice is taken from the unsized bytes. -/
inductive Slicing where
  /-- `unsized_bytes()[start..end]` (`get`, the iterator). -/
  | exact
  /-- `unsized_bytes()[start..]` (`get_mut`, `owned_from_ptr`). -/
  | suffix
  deriving Repr, DecidableEq

/-- The element slice if the (safe) slicing succeeds. -/
def elemSlice (sl : Slicing) (data : List Nat) (r : Nat × Nat) : Option (List Nat) :=
  match sl with
  | .exact => if r.1 ≤ r.2 ∧ r.2 ≤ data.length then some ((data.drop r.1).take (r.2 - r.1)) else none
  | .suffix => if r.1 ≤ data.length then some (data.drop r.1) else none

/-- Walk the elements of an `UnsizedList`: slice each (failure ↦ `bad`: a slice-index `panic`, or the
iterator's `PointerOutOfBounds` item), run `get_ptr` on the slice (`fext`; on error either propagate
or — iterator, `stop = true` — silently end the walk: `unsized_list.rs` 1246 `.ok()?`), then `body`. -/
def elems {α : Type} (sl : Slicing) (bad : E) (stop : Bool)
    (fext : List Nat → Except E Nat) (body : List Nat → Except E α) (data : List Nat) :
    List (Nat × Nat) → Except E (List α)
  | [] => .ok []
  | r :: rs =>
    match elemSlice sl data r with
    | none => .error bad
    | some slice =>
      match fext slice with
      | .error e => if stop then .ok [] else .error e
      | .ok _ =>
        match body slice with
        | .error e => .error e
        | .ok v =>
          match elems sl bad stop fext body data rs with
          | .error e => .error e
          | .ok vs => .ok (v :: vs)

/-- Header of an `UnsizedList` re-read through the pointer (raw reads): `(len, table, data)`. -/
def ulistParts (cw : Nat) (bs : List Nat) : Except E (List (Nat × List Nat) × List Nat) :=
  match rawSlice bs 0 8 with
  | .error e => .error e
  | .ok hdr =>
    let usz := rdLE (hdr.take 4)
    let len := rdLE (hdr.drop 4)
    match rawSlice bs 8 (len * cw) with
    | .error e => .error e
    | .ok tbl =>
      match rawSlice bs (8 + len * cw + 4) usz with
      | .error e => .error e
      | .ok data => .ok (parseTable cw len tbl, data)

/-- The bytes of a `List` pointer (`ListPtr` is a DST pointer: prefix, then `ew * len` bytes). -/
def listParts (ew lw : Nat) (bs : List Nat) : Except E (List (List Nat)) :=
  match rawSlice bs 0 lw with
  | .error e => .error e
  | .ok lenB =>
    let len := rdLE lenB
    match rawSlice bs lw (ew * len) with
    | .error e => .error e
    | .ok body => .ok (chunks ew len body)

/-! ## `own` (= `owned_from_ptr`) and `decode` (= `owned`) -/

mutual
/-- `UnsizedType::owned_from_ptr` applied to the pointer `get_ptr` produced from `bs`. -/
def own : Shape → List Nat → Except E Val
  | .fixed f, bs => match rawSlice bs 0 f.size with
    | .error e => .error e
    | .ok l => .ok (.bytes l)
  | .list e lw, bs => match listParts e.size lw bs with
    | .error er => .error er
    | .ok es => if es.all e.valid then .ok (.seq es) else .error .checkedCast
  | .set e lw, bs => match listParts e.size lw bs with
    | .error er => .error er
    | .ok es => if es.all e.valid then .ok (.seq (fromEntries e.size es)) else .error .panic
  | .map kw v lw, bs => match listParts (kw + v.size) lw bs with
    | .error er => .error er
    | .ok es =>
      if es.all (fun x => v.valid (x.drop kw)) then .ok (.seq (fromEntries kw es))
      else .error .panic
  | .str lw, bs => match listParts 1 lw bs with
    | .error er => .error er
    | .ok es => if utf8Valid es.flatten then .ok (.bytes es.flatten) else .error .utf8
  | .rem, bs => .ok (.bytes bs)
  | .ulist e, bs => match ulistParts 4 bs with
    | .error er => .error er
    | .ok (tbl, data) =>
      match elems .suffix .panic false (extent e) (own e) data (ranges (tbl.map (·.1)) data.length) with
      | .error er => .error er
      | .ok vs => .ok (.useq vs)
  | .umap kw e, bs => match ulistParts (Shape.entryW kw) bs with
    | .error er => .error er
    | .ok (tbl, data) =>
      match elems .exact .oob true (extent e) (own e) data (ranges (tbl.map (·.1)) data.length) with
      | .error er => .error er
      | .ok vs => .ok (.umap (fromKVs ((tbl.map (·.2)).zip vs)))
  | .struct sized fs, bs =>
      match rawSlice bs 0 (Fixed.sizeList sized) with
      | .error er => .error er
      | .ok sz => match ownFields fs (bs.drop (Fixed.sizeList sized)) with
        | .error er => .error er
        | .ok vs => .ok (.record sz vs)
  | .enum ds ps, bs =>
      match bs with
      | [] => .error .ub
      | r :: rest => ownVariant ds ps 0 r rest
  | .unit, _ => .ok .unit
  | .disc d inner, bs => own inner (bs.drop d.length)
def ownFields : List Shape → List Nat → Except E (List Val)
  | [], _ => .ok []
  | f :: fs, bs => match own f bs with
    | .error e => .error e
    | .ok v => match extent f bs with
      | .error e => .error e
      | .ok n => match ownFields fs (bs.drop n) with
        | .error e => .error e
        | .ok vs => .ok (v :: vs)
def ownVariant : List Nat → List Shape → Nat → Nat → List Nat → Except E Val
  | d :: ds, p :: ps, i, r, bs =>
      if r = d then match own p bs with
        | .error e => .error e
        | .ok v => .ok (.variant i v)
      else ownVariant ds ps (i + 1) r bs
  | _, _, _, _, _ => .error .ub
end

/-- `UnsizedType::owned(data)` = `get_ptr` then `owned_from_ptr` (`mod.rs` 63–66): the owned value
and the number of bytes the parse covered. `AccountDiscriminant` overrides `owned` (`account.rs`
189–199): a safe `Advance::try_advance` past the discriminant, then `T::owned`. -/
def decode (s : Shape) (bs : List Nat) : Except E (Val × Nat) :=
  match s with
  | .disc d inner =>
    if d.length ≤ bs.length then
      match extent inner (bs.drop d.length) with
      | .error e => .error e
      | .ok n => match own inner (bs.drop d.length) with
        | .error e => .error e
        | .ok v => .ok (v, d.length + n)
    else .error .advancer
  | s =>
    match extent s bs with
    | .error e => .error e
    | .ok n => match own s bs with
      | .error e => .error e
      | .ok v => .ok (v, n)

/-! ## Read-side views -/

/-- Which family of accessors walks the value. -/
inductive Mode where
  /-- shared: `List::get(i)`, `UnsizedList::get(i)`, `Map/Set::get_by_index`, `as_str` -/
  | get
  /-- exclusive: `get_mut(i)`, `UnsizedList::get_mut(i)`, `get_by_index_mut`, `as_mut_str` -/
  | getMut
  /-- iteration: `iter()` of every container (a `for` loop, `?` on error items) -/
  | iter
  deriving Repr, DecidableEq

mutual
/-- What the read-side API exposes for a pointer obtained by `get_ptr` from `bs`, rendered as a
`Val` (containers in *stored* order; nothing is sorted or deduplicated). -/
def view (m : Mode) : Shape → List Nat → Except E Val
  | .fixed f, bs => match rawSlice bs 0 f.size with
    | .error e => .error e
    | .ok l => .ok (.bytes l)
  | .list e lw, bs => match listParts e.size lw bs with
    | .error er => .error er
    | .ok es => if es.all e.valid then .ok (.seq es) else .error .panic
  | .set e lw, bs => match listParts e.size lw bs with
    | .error er => .error er
    | .ok es => if es.all e.valid then .ok (.seq es) else .error .panic
  | .map kw v lw, bs => match listParts (kw + v.size) lw bs with
    | .error er => .error er
    | .ok es => if es.all (fun x => v.valid (x.drop kw)) then .ok (.seq es) else .error .panic
  | .str lw, bs => match listParts 1 lw bs with
    | .error er => .error er
    | .ok es => if utf8Valid es.flatten then .ok (.bytes es.flatten) else .error .utf8
  | .rem, bs => .ok (.bytes bs)
  | .ulist e, bs => match ulistParts 4 bs with
    | .error er => .error er
    | .ok (tbl, data) =>
      match elems (if m = .getMut then .suffix else .exact) (if m = .iter then .oob else .panic)
          (decide (m = .iter)) (extent e) (view m e) data (ranges (tbl.map (·.1)) data.length) with
      | .error er => .error er
      | .ok vs => .ok (.useq vs)
  | .umap kw e, bs => match ulistParts (Shape.entryW kw) bs with
    | .error er => .error er
    | .ok (tbl, data) =>
      match elems (if m = .getMut then .suffix else .exact) (if m = .iter then .oob else .panic)
          (decide (m = .iter)) (extent e) (view m e) data (ranges (tbl.map (·.1)) data.length) with
      | .error er => .error er
      | .ok vs => .ok (.umap ((tbl.map (·.2)).zip vs))
  | .struct sized fs, bs =>
      match rawSlice bs 0 (Fixed.sizeList sized) with
      | .error er => .error er
      | .ok sz => match viewFields m fs (bs.drop (Fixed.sizeList sized)) with
        | .error er => .error er
        | .ok vs => .ok (.record sz vs)
  | .enum ds ps, bs =>
      match bs with
      | [] => .error .ub
      | r :: rest => viewVariant m ds ps 0 r rest
  | .unit, _ => .ok .unit
  | .disc d inner, bs => view m inner (bs.drop d.length)
def viewFields (m : Mode) : List Shape → List Nat → Except E (List Val)
  | [], _ => .ok []
  | f :: fs, bs => match view m f bs with
    | .error e => .error e
    | .ok v => match extent f bs with
      | .error e => .error e
      | .ok n => match viewFields m fs (bs.drop n) with
        | .error e => .error e
        | .ok vs => .ok (v :: vs)
def viewVariant (m : Mode) : List Nat → List Shape → Nat → Nat → List Nat → Except E Val
  | d :: ds, p :: ps, i, r, bs =>
      if r = d then match view m p bs with
        | .error e => .error e
        | .ok v => .ok (.variant i v)
      else viewVariant m ds ps (i + 1) r bs
  | _, _, _, _, _ => .error .ub
end

/-- `SharedWrapper::new::<T>` / `ExclusiveWrapper::new` (= `get_ptr`) followed by a full walk. -/
def viewTop (m : Mode) (s : Shape) (bs : List Nat) : Except E (Val × Nat) :=
  match extent s bs with
  | .error e => .error e
  | .ok n => match view m s bs with
    | .error e => .error e
    | .ok v => .ok (v, n)

/-! ## Client-side account helpers (`client.rs`) -/

/-- `check_discriminant` (`client.rs` 109–123): the first `|d|` bytes must exist and equal `d`. -/
def checkDiscriminant (d : List Nat) (bs : List Nat) : Except E Unit :=
  if d.length ≤ bs.length then
    if bs.take d.length = d then .ok () else .error .discMismatch
  else .error .discMismatch

/-- `DeserializeAccount::deserialize_account` (`client.rs` 125–131). -/
def deserializeAccount (d : List Nat) (inner : Shape) (bs : List Nat) : Except E (Val × Nat) :=
  match checkDiscriminant d bs with
  | .error e => .error e
  | .ok () => decode (.disc d inner) bs

/-- `SerializeAccount::serialize_account` (`client.rs` 146–160): a `byte_size` buffer filled by
`AccountDiscriminant::<T>::from_owned`. -/
def serializeAccount (d : List Nat) (inner : Shape) (v : Val) : Except E (List Nat) :=
  match fromOwned (.disc d inner) v (size (.disc d inner) v) with
  | .error e => .error e
  | .ok (bytes, _) => .ok bytes

/-! ## The off-chain test buffer helper (`test_helpers.rs`) -/

/-- `MAX_PERMITTED_DATA_INCREASE`: the slack `TestUnderlyingData` allocates behind the data. -/
def testSlack : Nat := 10240

/-- `TestByteSet::new(owned)`: a zeroed `Vec` of `byte_size + 10240` bytes, `len = byte_size`,
filled by `from_owned` on the first `len` bytes. Returns `(backing vec, len)`. -/
def testBufferNew (s : Shape) (v : Val) : Except E (List Nat × Nat) :=
  match fromOwned s v (size s v) with
  | .error e => .error e
  | .ok (bytes, _) => .ok (bytes ++ List.replicate testSlack 0, size s v)

/-- `TestByteSet::owned`: `T::owned(&data[..len])` (`test_helpers.rs` 158–160). -/
def testBufferOwned (s : Shape) (buf : List Nat × Nat) : Except E Val :=
  match decode s (buf.1.take buf.2) with
  | .error e => .error e
  | .ok (v, _) => .ok v

/-- `data_mut()?.set_from_owned(v2)` on the top wrapper of a test buffer (`wrapper.rs`
`set_data_inner`): the data is resized to `byte_size v2` and `from_owned` writes into it. What is
left in the slack behind `len` is not observable through the helper and is modelled as zeroes.
(Stated for values that fit; a `from_owned` failing after the resize is C06's subject.) -/
def testBufferSet (s : Shape) (_buf : List Nat × Nat) (v2 : Val) : Except E (List Nat × Nat) :=
  match fromOwned s v2 (size s v2) with
  | .error e => .error e
  | .ok (bytes, _) => .ok (bytes ++ List.replicate testSlack 0, size s v2)

/-- `TestByteSet::underlying_data`: the first `len` bytes (`test_helpers.rs` 162–164). -/
def testBufferData (buf : List Nat × Nat) : List Nat := buf.1.take buf.2

/-! ## `UnsizedInit` -/

/-- Initializer arguments. -/
inductive Init where
  /-- `DefaultInit` -/
  | default
  /-- `UnsizedInit<T> for T` (fixed types): the owned value itself. -/
  | owned (l : List Nat)
  /-- `[T; N]` / `&[T; N]` for `List` (and `[u8; N]` for `RemainingBytes`): the element records.
  (`UnsizedStringInit { chars }` has a private field, so a string only has `DefaultInit`.) -/
  | array (es : List (List Nat))
  /-- `[I; N]` for `UnsizedList<T>` where `T: UnsizedInit<I>`. -/
  | uarray (is : List Init)
  /-- the generated `…Init { sized, f1, …, fn }` struct (`sized` absent when there is no sized part). -/
  | fields (sized : Init) (is : List Init)
  /-- the generated `…Init<Variant>(arg)` / unit `…Init<Variant>` struct of an enum. -/
  | variant (idx : Nat) (arg : Init)
  deriving Repr, Inhabited

/-- The all-zero (`Zeroable::zeroed`) value of a fixed shape. -/
def zeros (n : Nat) : List Nat := List.replicate n 0

/-- Initializers of a fixed type: `DefaultInit` or the owned value. -/
def initOkFixed (f : Fixed) : Init → Bool
  | .default => true
  | .owned l => l.length == f.size && f.valid l && decide (BytesWF l)
  | _ => false

mutual
/-- Is `a` an initializer argument some `UnsizedInit<_>` impl of the shape accepts? -/
def initOk : Shape → Init → Bool
  | .fixed f, a => initOkFixed f a
  | .list _ _, .default => true
  | .list e _, .array es =>
      es.all (fun x => x.length == e.size && e.valid x && decide (BytesWF x))
  | .set _ _, .default => true
  | .map _ _ _, .default => true
  | .str _, .default => true
  | .rem, .default => true
  | .rem, .array es => es.all (fun x => x.length == 1 && decide (BytesWF x))
  | .ulist _, .default => true
  | .ulist e, .uarray is => is.all (initOk e)
  | .umap _ _, .default => true
  | .struct _ fs, .default => initOkDefault fs
  | .struct sized fs, .fields sz is =>
      (if sized.isEmpty then (match sz with | .default => true | _ => false)
        else initOkFixed (.record sized) sz) && initOkFields fs is
  | .enum ds ps, .default => (match ds, ps with | _ :: _, p :: _ => initOk p .default | _, _ => false)
  | .enum ds ps, .variant i a => decide (i < ds.length) && initOkVariant ps i a
  | .unit, .default => true
  | .disc _ inner, a => initOk inner a
  | _, _ => false
def initOkDefault : List Shape → Bool
  | [] => true
  | f :: fs => initOk f .default && initOkDefault fs
def initOkFields : List Shape → List Init → Bool
  | [], [] => true
  | f :: fs, a :: as => initOk f a && initOkFields fs as
  | _, _ => false
def initOkVariant : List Shape → Nat → Init → Bool
  | p :: _, 0, a => initOk p a
  | _ :: ps, i + 1, a => initOkVariant ps i a
  | [], _, _ => false
end

/-- `init` of a fixed type: `T::default_init()` for `DefaultInit` (zeroes unless the type has a
hand-written default, `Fixed.dflt`), the owned bytes otherwise. -/
def initFixedBytes (f : Fixed) : Init → List Nat
  | .owned l => l
  | _ => f.dflt

mutual
/-- The bytes `UnsizedInit::init` writes (`checked.rs` 137–174, `list.rs` 581–644,
`remaining_bytes.rs` 163–194, `unsized_list.rs` 1009–1177, generated default/struct/enum inits,
`account.rs` 238–258). Its length is `INIT_BYTES` (`initSize`, theorem `init_size`). -/
def initBytes : Shape → Init → List Nat
  | .fixed f, a => initFixedBytes f a
  | .list _ lw, .default => zeros lw
  | .list _ lw, .array es => leN lw es.length ++ es.flatten
  | .set _ lw, .default => zeros lw
  | .map _ _ lw, .default => zeros lw
  | .str lw, .default => zeros lw
  | .rem, .default => []
  | .rem, .array es => es.flatten
  | .ulist _, .default => zeros 12
  | .ulist e, .uarray is =>
      let encs := is.map (initBytes e)
      let sizes := encs.map List.length
      leN 4 sizes.sum ++ leN 4 is.length ++ ((offsets sizes 0).map (leN 4)).flatten
        ++ leN 4 is.length ++ encs.flatten
  | .umap _ _, .default => zeros 12
  | .struct sized fs, .default => zeros (Fixed.sizeList sized) ++ initDefaultFields fs
  | .struct sized fs, .fields sz is => initFixedBytes (.record sized) sz ++ initFields fs is
  | .enum ds ps, .default =>
      (match ds, ps with | d :: _, p :: _ => d :: initBytes p .default | _, _ => [])
  | .enum ds ps, .variant i a => initVariant ds ps i a
  | .unit, _ => []
  | .disc d inner, a => d ++ initBytes inner a
  | _, _ => []
def initDefaultFields : List Shape → List Nat
  | [] => []
  | f :: fs => initBytes f .default ++ initDefaultFields fs
def initFields : List Shape → List Init → List Nat
  | f :: fs, a :: as => initBytes f a ++ initFields fs as
  | _, _ => []
def initVariant : List Nat → List Shape → Nat → Init → List Nat
  | d :: _, p :: _, 0, a => d :: initBytes p a
  | _ :: ds, _ :: ps, i + 1, a => initVariant ds ps i a
  | _, _, _, _ => []
end

mutual
/-- `UnsizedInit::<A>::INIT_BYTES`. -/
def initSize : Shape → Init → Nat
  | .fixed f, _ => f.size
  | .list _ lw, .default => lw
  | .list e lw, .array es => lw + e.size * es.length
  | .set _ lw, .default => lw
  | .map _ _ lw, .default => lw
  | .str lw, .default => lw
  | .rem, .default => 0
  | .rem, .array es => es.length
  | .ulist _, .default => 12
  | .ulist e, .uarray is => 12 + is.length * 4 + (is.map (initSize e)).sum
  | .umap _ _, .default => 12
  | .struct sized fs, .default => Fixed.sizeList sized + initSizeDefault fs
  | .struct sized fs, .fields _ is => Fixed.sizeList sized + initSizeFields fs is
  | .enum _ ps, .default => (match ps with | p :: _ => initSize p .default + 1 | [] => 0)
  | .enum _ ps, .variant i a => initSizeVariant ps i a + 1
  | .unit, _ => 0
  | .disc d inner, a => initSize inner a + d.length
  | _, _ => 0
def initSizeDefault : List Shape → Nat
  | [] => 0
  | f :: fs => initSize f .default + initSizeDefault fs
def initSizeFields : List Shape → List Init → Nat
  | f :: fs, a :: as => initSize f a + initSizeFields fs as
  | _, _ => 0
def initSizeVariant : List Shape → Nat → Init → Nat
  | p :: _, 0, a => initSize p a
  | _ :: ps, i + 1, a => initSizeVariant ps i a
  | [], _, _ => 0
end

mutual
/-- The owned value an initializer denotes. -/
def denote : Shape → Init → Val
  | .fixed f, a => .bytes (initFixedBytes f a)
  | .list _ _, .default => .seq []
  | .list _ _, .array es => .seq es
  | .set _ _, .default => .seq []
  | .map _ _ _, .default => .seq []
  | .str _, .default => .bytes []
  | .rem, .default => .bytes []
  | .rem, .array es => .bytes es.flatten
  | .ulist _, .default => .useq []
  | .ulist e, .uarray is => .useq (is.map (denote e))
  | .umap _ _, .default => .umap []
  | .struct sized fs, .default => .record (zeros (Fixed.sizeList sized)) (denoteDefault fs)
  | .struct sized fs, .fields sz is =>
      .record (initFixedBytes (.record sized) sz) (denoteFields fs is)
  | .enum _ ps, .default => (match ps with | p :: _ => .variant 0 (denote p .default) | [] => .unit)
  | .enum _ ps, .variant i a => .variant i (denoteVariant ps i a)
  | .unit, _ => .unit
  | .disc _ inner, a => denote inner a
  | _, _ => .unit
def denoteDefault : List Shape → List Val
  | [] => []
  | f :: fs => denote f .default :: denoteDefault fs
def denoteFields : List Shape → List Init → List Val
  | f :: fs, a :: as => denote f a :: denoteFields fs as
  | _, _ => []
def denoteVariant : List Shape → Nat → Init → Val
  | p :: _, 0, a => denote p a
  | _ :: ps, i + 1, a => denoteVariant ps i a
  | [], _, _ => .unit
end

end Unsized
