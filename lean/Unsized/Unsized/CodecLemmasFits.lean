import Unsized.CodecLemmas
/-!
# A value whose counts all fit has no unfit length prefix (`fits s v → unfitPos s v = none`)
-/
namespace Unsized
open Common

def FitsP (s : Shape) : Prop := ∀ v, fits s v = true → unfitPos s v = none

theorem firstUnfit_none (sz : Val → Nat) (u : Val → Option Nat) (vs : List Val)
    (h : ∀ v ∈ vs, u v = none) : firstUnfit sz u vs = none := by
  induction vs with
  | nil => rfl
  | cons v vs ih =>
    simp only [firstUnfit, h v (by simp)]
    rw [ih (fun w hw => h w (by simp [hw]))]; rfl

theorem fitsP_fields (fs : List Shape) (ih : ∀ f ∈ fs, FitsP f) :
    ∀ vs, fitsFields fs vs = true → unfitFields fs vs = none := by
  induction fs with
  | nil => intro vs _; cases vs <;> rfl
  | cons f fs ihf =>
    intro vs h
    cases vs with
    | nil => rfl
    | cons v vs =>
      simp only [fitsFields, Bool.and_eq_true] at h
      simp only [unfitFields, ih f (by simp) v h.1, ihf (fun g hg => ih g (by simp [hg])) vs h.2]
      rfl

theorem fitsP_variant (ps : List Shape) (ih : ∀ p ∈ ps, FitsP p) :
    ∀ i v, fitsVariant ps i v = true → unfitVariant ps i v = none := by
  induction ps with
  | nil => intro i v _; rfl
  | cons p ps ihp =>
    intro i v h
    cases i with
    | zero => simp only [fitsVariant] at h; simpa [unfitVariant] using ih p (by simp) v h
    | succ i =>
      simp only [fitsVariant] at h
      simpa [unfitVariant] using ihp (fun g hg => ih g (by simp [hg])) i v h

theorem fitsP_all (s : Shape) : FitsP s := by
  induction s using Shape.induct' with
  | fixed f => intro v _; cases v <;> rfl
  | list e lw => intro v h; cases v <;> simp [fits] at h <;> simp [unfitPos, h]
  | set e lw => intro v h; cases v <;> simp [fits] at h <;> simp [unfitPos, h]
  | map kw val lw => intro v h; cases v <;> simp [fits] at h <;> simp [unfitPos, h]
  | str lw => intro v h; cases v <;> simp [fits] at h <;> simp [unfitPos, h]
  | rem => intro v _; cases v <;> rfl
  | ulist e ih =>
    intro v h
    cases v <;> simp [fits] at h <;> try rfl
    rename_i vs
    simp only [unfitPos, firstUnfit_none _ _ vs (fun w hw => ih w (h.2 w hw))]; rfl
  | umap kw e ih =>
    intro v h
    cases v <;> simp [fits] at h <;> try rfl
    rename_i es
    have : firstUnfit (size e) (unfitPos e) (es.map (·.2)) = none := by
      apply firstUnfit_none
      intro w hw
      simp only [List.mem_map] at hw
      obtain ⟨kv, hkv, rfl⟩ := hw
      exact ih kv.2 (h.2 kv.1 kv.2 hkv)
    simp only [unfitPos, this]; rfl
  | struct sized fs ih =>
    intro v h
    cases v <;> simp [fits] at h <;> try rfl
    rename_i sz vs
    simp only [unfitPos, fitsP_fields fs ih vs h]; rfl
  | enum ds ps ih =>
    intro v h
    cases v <;> simp [fits] at h <;> try rfl
    rename_i i p
    simp only [unfitPos, fitsP_variant ps ih i p h]; rfl
  | unit => intro v _; cases v <;> rfl
  | disc d inner ih =>
    intro v h
    have h' : fits inner v = true := by cases v <;> simpa [fits] using h
    have : unfitPos (.disc d inner) v = (unfitPos inner v).map (· + d.length) := by cases v <;> rfl
    rw [this, ih v h']; rfl

end Unsized
