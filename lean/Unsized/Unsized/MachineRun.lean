import Unsized.MachineOps
/-!
# The machine of one case: buffer + stack of live exclusive accessors (`unsized_ops.md` §2)

`State.levels` are the absolute paths of the live accessors, outermost first (`levels[0] = []` is the
top `ExclusiveWrapper`). In the (repaired) code a live accessor's pointers always designate the
sub-value at its path, so a level is fully described by its path; the pointer trees themselves are
modelled in `Unsized/Ptr.lean`.
-/
namespace Unsized.Machine
open Common Unsized Unsized.Text

/-- One line of a case. -/
inductive Cmd where
  | enter (st : Step)
  | leave
  | reborrow
  | op (path : List Step) (op : Op)
  deriving Repr, Inhabited

structure State where
  mem : Mem
  levels : List (List Step)
  deriving Repr, Inhabited

/-- Absolute path of the innermost live accessor. -/
def State.cur (st : State) : List Step := st.levels.getLastD []

/-- `ExclusiveWrapper::new` over `encode s v` with a refusal schedule. -/
def State.init (bytes : List Nat) (refuse : List Nat) : State :=
  { mem := { bytes := bytes, orig := bytes.length, grows := 0, refuse := refuse }, levels := [[]] }

/-- Execute one line on the top type `s`. -/
def step (s : Shape) (st : State) : Cmd → State × Except Err Ret
  | .enter x =>
    match locate s (st.cur ++ [x]) 0 st.mem.bytes with
    | .error e => (st, .error e)
    | .ok _ => ({ st with levels := st.levels ++ [st.cur ++ [x]] }, .ok .unit)
  | .leave =>
    if st.levels.length ≤ 1 then (st, .error .bad)
    else ({ st with levels := st.levels.dropLast }, .ok .unit)
  | .reborrow => ({ st with levels := [[]] }, .ok .unit)
  | .op p o =>
    match applyOp s (st.cur ++ p) o st.mem with
    | (m, r) => ({ st with mem := m }, r)

end Unsized.Machine
