import Unsized.MachineNotifyPlug
/-!
# Replacing a child (`step_subst`): the new owned value is well formed and serializes to
`stepPre … |new| ++ new ++ stepPost …`
-/
namespace Unsized.Machine
open Common Unsized Unsized.Text

theorem validFields_set (fs : List Shape) (vs : List Val) (i : Nat) (f : Shape) (x' : Val)
    (hf : fs[i]? = some f) (h : validFields fs vs = true) (hx : valid f x' = true) :
    validFields fs (vs.set i x') = true := by
  induction i generalizing fs vs with
  | zero =>
    cases fs with
    | nil => simp at hf
    | cons f' fs => cases vs with
      | nil => simp [validFields] at h
      | cons y vs => simp at hf; subst hf; simp [validFields] at h ⊢; exact ⟨hx, h.2⟩
  | succ i ih =>
    cases fs with
    | nil => simp at hf
    | cons f' fs => cases vs with
      | nil => simp [validFields] at h
      | cons y vs => simp at hf; simp [validFields] at h ⊢; exact ⟨h.1, ih fs vs hf h.2⟩

theorem fitsFields_set (fs : List Shape) (vs : List Val) (i : Nat) (f : Shape) (x' : Val)
    (hf : fs[i]? = some f) (h : fitsFields fs vs = true) (hx : fits f x' = true) :
    fitsFields fs (vs.set i x') = true := by
  induction i generalizing fs vs with
  | zero =>
    cases fs with
    | nil => simp at hf
    | cons f' fs => cases vs with
      | nil => simp [fitsFields]
      | cons y vs => simp at hf; subst hf; simp [fitsFields] at h ⊢; exact ⟨hx, h.2⟩
  | succ i ih =>
    cases fs with
    | nil => simp at hf
    | cons f' fs => cases vs with
      | nil => simp [fitsFields]
      | cons y vs => simp at hf; simp [fitsFields] at h ⊢; exact ⟨h.1, ih fs vs hf h.2⟩

theorem validVariant_set (ps : List Shape) (i : Nat) (t : Shape) (pl : Val) (ht : ps[i]? = some t)
    (h : valid t pl = true) : validVariant ps i pl = true := by
  induction i generalizing ps with
  | zero => cases ps with
    | nil => simp at ht
    | cons p ps => simp at ht; subst ht; simpa [validVariant] using h
  | succ i ih => cases ps with
    | nil => simp at ht
    | cons p ps => simp [validVariant]; exact ih ps (by simpa using ht)

theorem fitsVariant_set (ps : List Shape) (i : Nat) (t : Shape) (pl : Val) (ht : ps[i]? = some t)
    (h : fits t pl = true) : fitsVariant ps i pl = true := by
  induction i generalizing ps with
  | zero => cases ps with
    | nil => simp at ht
    | cons p ps => simp at ht; subst ht; simpa [fitsVariant] using h
  | succ i ih => cases ps with
    | nil => simp at ht
    | cons p ps => simp [fitsVariant]; exact ih ps (by simpa using ht)


theorem stepPre_set_struct (fs : List Shape) (vs : List Val) (i : Nat) (x' : Val) :
    encodeFields (fs.take i) ((vs.set i x').take i) = encodeFields (fs.take i) (vs.take i) := by
  rw [List.take_set_of_le (Nat.le_refl i)]

theorem all_set {α : Type} (l : List α) (p : α → Bool) (i : Nat) (x : α) (h : l.all p = true) (hx : p x = true) :
    (l.set i x).all p = true := by
  rw [List.all_eq_true] at h ⊢
  intro y hy
  rcases List.mem_or_eq_of_mem_set hy with h' | h'
  · exact h y h'
  · subst h'; exact hx

theorem map_const_set {α β : Type} (l : List α) (i : Nat) (x : α) (c : β) :
    (l.set i x).map (fun _ => c) = l.map (fun _ => c) := by
  rw [List.map_set]
  apply List.ext_getElem (by simp)
  intro j h1 h2
  by_cases hji : i = j
  · subst hji; simp
  · simp [List.getElem_set_ne hji]

theorem map_fst_set {α β γ : Type} (l : List (α × β)) (i : Nat) (k : α) (y : β) (f : α → γ) (hi : i < l.length)
    (hk : (l[i]).1 = k) : (l.set i (k, y)).map (fun kv => f kv.1) = l.map (fun kv => f kv.1) := by
  rw [List.map_set]
  apply List.ext_getElem (by simp)
  intro j h1 h2
  by_cases hji : i = j
  · subst hji; simp [hk]
  · simp [List.getElem_set_ne hji]

/-- Replacing the child: the new value is well formed, serializes to the plugged bytes, and the
same step finds the new child in the same place. -/
theorem step_subst (s : Shape) (v : Val) (st : Step) (t : Shape) (u u' : Val) (g : Good s v)
    (h : resolve1 s v st = .ok (t, u)) (g' : Good t u')
    (hbound : (stepPre s v st (encode t u').length).length + (encode t u').length
        + (stepPost s v st).length < Shape.u32Lim) :
    Good s (subst1 v st u')
    ∧ encode s (subst1 v st u') = stepPre s v st (encode t u').length ++ encode t u' ++ stepPost s v st
    ∧ resolve1 s (subst1 v st u') st = .ok (t, u')
    ∧ (∀ n, stepPre s (subst1 v st u') st n = stepPre s v st n)
    ∧ stepPost s (subst1 v st u') st = stepPost s v st := by
  unfold resolve1 at h
  split at h
  · -- struct
    rename_i sized fs sz vs i
    split at h
    · rename_i f x hf hx
      cases h
      obtain ⟨⟨top, ie, hok⟩, hv, hfit⟩ := g
      have hi : i < vs.length := by
        rcases Nat.lt_or_ge i vs.length with h | h
        · exact h
        · simp [List.getElem?_eq_none h] at hx
      have hx' : (vs.set i u')[i]? = some u' := by simp [hi]
      simp only [valid, Bool.and_eq_true] at hv
      simp only [fits] at hfit
      refine ⟨⟨⟨top, ie, hok⟩, ?_, ?_⟩, ?_, ?_, ?_, ?_⟩
      · simp only [subst1, valid, Bool.and_eq_true]
        exact ⟨hv.1, validFields_set fs vs i t u' hf hv.2 g'.valid⟩
      · simp only [subst1, fits]; exact fitsFields_set fs vs i t u' hf hfit g'.fits
      · simp only [subst1, encode, stepPre, stepPost]
        rw [encodeFields_split fs (vs.set i u') i t u' hf hx', List.take_set_of_le (Nat.le_refl i),
          List.drop_set_of_lt (by omega)]
        simp [List.append_assoc]
      · simp only [subst1, resolve1, hf, hx']
      · intro n; simp only [subst1, stepPre, List.take_set_of_le (Nat.le_refl i)]
      · simp only [subst1, stepPost]; rw [List.drop_set_of_lt (by omega)]
    · cases h
  · -- ulist
    rename_i e vs i
    split at h
    · rename_i x hx
      cases h
      obtain ⟨⟨top, ie, hok⟩, hv, hfit⟩ := g
      have hi : i < vs.length := by
        rcases Nat.lt_or_ge i vs.length with h | h
        · exact h
        · simp [List.getElem?_eq_none h] at hx
      have hx' : (vs.set i u')[i]? = some u' := by simp [hi]
      simp only [valid] at hv
      simp only [fits, Bool.and_eq_true, decide_eq_true_eq] at hfit
      have hkeys : ∀ k ∈ vs.map (fun _ => ([] : List Nat)), k.length = 0 := by
        intro k hk; obtain ⟨_, _, rfl⟩ := List.mem_map.1 hk; rfl
      have hvs' : (vs.set i u').all (valid t) = true := all_set vs _ i u' hv g'.valid
      have henc : encode (.ulist t) (.useq (vs.set i u'))
          = stepPre (.ulist t) (.useq vs) (.elem i) (encode t u').length ++ encode t u'
            ++ stepPost (.ulist t) (.useq vs) (.elem i) := by
        rw [encode_ulist_uBytes, map_const_set, List.map_set, uBytes_set _ _ i _ (by simpa using hi)]
        simp only [stepPre, stepPost, List.map_take, List.map_drop]
      refine ⟨⟨⟨top, ie, hok⟩, ?_, ?_⟩, henc, ?_, ?_, ?_⟩
      · simpa [subst1, valid] using hvs'
      · simp only [subst1, fits, Bool.and_eq_true, decide_eq_true_eq, List.length_set]
        refine ⟨⟨hfit.1.1, ?_⟩, all_set vs _ i u' hfit.2 g'.fits⟩
        have hl := congrArg List.length henc
        rw [encode_ulist_uBytes, uBytes, List.length_append, uHdrOf_length 0 _ _ (by simp) (by
          intro k hk; obtain ⟨_, _, rfl⟩ := List.mem_map.1 hk; rfl), sum_map_length_flatten,
          map_encode_length t _ hvs'] at hl
        simp only [List.length_append] at hl
        omega
      · simp only [subst1, resolve1, hx']
      · intro n
        simp only [subst1, stepPre]
        rw [map_const_set]
        simp only [List.map_set, List.set_set, List.take_set_of_le (Nat.le_refl i)]
      · simp only [subst1, stepPost]; rw [List.drop_set_of_lt (by omega)]
    · cases h
  · -- umap
    rename_i kw e es i
    split at h
    · rename_i kx hx
      cases h
      obtain ⟨⟨top, ie, hok⟩, hv, hfit⟩ := g
      have hi : i < es.length := by
        rcases Nat.lt_or_ge i es.length with h | h
        · exact h
        · simp [List.getElem?_eq_none h] at hx
      have hxi : es[i] = kx := by
        have := List.getElem?_eq_getElem hi; rw [hx] at this; exact (Option.some.inj this).symm
      have hx' : (es.set i (kx.1, u'))[i]? = some (kx.1, u') := by simp [hi]
      have hsub : subst1 (.umap es) (.elem i) u' = .umap (es.set i (kx.1, u')) := by
        simp only [subst1, hx]
      simp only [valid, Bool.and_eq_true] at hv
      simp only [fits, Bool.and_eq_true, decide_eq_true_eq] at hfit
      have hk1 : (es.set i (kx.1, u')).map (·.1) = es.map (·.1) := by
        have := map_fst_set es i kx.1 u' id hi (by rw [hxi]); simpa using this
      have hk2 : (es.set i (kx.1, u')).map (fun kv => rdLE kv.1) = es.map (fun kv => rdLE kv.1) :=
        map_fst_set es i kx.1 u' rdLE hi (by rw [hxi])
      have hkx := (List.all_eq_true.1 hv.1) kx (List.mem_of_getElem? hx)
      have hv1' : (es.set i (kx.1, u')).all (fun kv => kv.1.length == kw && decide (BytesWF kv.1) && valid t kv.2) = true := by
        apply all_set es _ i _ hv.1
        simp only [Bool.and_eq_true] at hkx ⊢; exact ⟨hkx.1, g'.valid⟩
      have hvall' : (es.set i (kx.1, u')).all (fun kv => valid t kv.2) = true := by
        rw [List.all_eq_true] at hv1' ⊢
        intro x hx''; have := hv1' x hx''; simp only [Bool.and_eq_true] at this; exact this.2
      have hkeys : ∀ k ∈ es.map (·.1), k.length = kw := by
        intro k hk; obtain ⟨kv, hkv, rfl⟩ := List.mem_map.1 hk
        have := (List.all_eq_true.1 hv.1) kv hkv
        simp only [Bool.and_eq_true, beq_iff_eq] at this; exact this.1.1
      have henc : encode (.umap kw t) (.umap (es.set i (kx.1, u')))
          = stepPre (.umap kw t) (.umap es) (.elem i) (encode t u').length ++ encode t u'
            ++ stepPost (.umap kw t) (.umap es) (.elem i) := by
        rw [encode_umap_uBytes, hk1, List.map_set, uBytes_set _ _ i _ (by simpa using hi)]
        simp only [stepPre, stepPost, List.map_take, List.map_drop]
      rw [hsub]
      refine ⟨⟨⟨top, ie, hok⟩, ?_, ?_⟩, henc, ?_, ?_, ?_⟩
      · simp only [valid, Bool.and_eq_true]; rw [hk2]; exact ⟨hv1', hv.2⟩
      · simp only [fits, Bool.and_eq_true, decide_eq_true_eq, List.length_set]
        refine ⟨⟨hfit.1.1, ?_⟩, all_set es _ i _ hfit.2 g'.fits⟩
        have hl := congrArg List.length henc
        rw [encode_umap_uBytes, uBytes, List.length_append, uHdrOf_length kw _ _ (by simp) (by rw [hk1]; exact hkeys),
          sum_map_length_flatten, map_encode_length_kv t _ hvall'] at hl
        simp only [List.length_append] at hl
        omega
      · simp only [resolve1, hx']
      · intro n
        simp only [stepPre]
        rw [hk1]
        simp only [List.map_set, List.set_set, List.take_set_of_le (Nat.le_refl i)]
      · simp only [stepPost]; rw [List.drop_set_of_lt (by omega)]
    · cases h
  · -- enum
    rename_i ds ps idx pl
    split at h
    · cases h
    · cases h
    · rename_i t' hnu ht
      cases h
      obtain ⟨⟨top, ie, hok⟩, hv, hfit⟩ := g
      simp only [valid, Bool.and_eq_true, decide_eq_true_eq] at hv
      have hd : ds[idx]? = some ds[idx] := List.getElem?_eq_getElem hv.1
      refine ⟨⟨⟨top, ie, hok⟩, ?_, ?_⟩, ?_, ?_, fun _ => rfl, rfl⟩
      · simp only [subst1, valid, Bool.and_eq_true, decide_eq_true_eq]
        exact ⟨hv.1, validVariant_set ps idx t u' ht g'.valid⟩
      · simp only [subst1, fits]; exact fitsVariant_set ps idx t u' ht g'.fits
      · simp only [subst1, encode, stepPre, stepPost, hd, Option.getD_some]
        rw [encodeVariant_get ds ps idx u' _ t hd ht]; simp
      · simp only [subst1, resolve1, ht]
  · cases h

end Unsized.Machine
