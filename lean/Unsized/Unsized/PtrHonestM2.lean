import Unsized.PtrHonestM1
namespace Unsized.Ptr
open Common Unsized Unsized.Text Unsized.Machine Unsized.PtrT Unsized.PtrM

/-- `check_inner_initialized` accepts an honest list pointer. -/
theorem hon_checkInner (e : Shape) (B len lo hiR cw : Nat) (inner : Option PtrTree) (pmb : Bool)
    (hok : Shape.okAux false false e = true) (hlo : lo = B)
    (hin : inner = none ∨ ∃ J x b0, inner = some J ∧ Good e x ∧ B + 12 ≤ b0 ∧ b0 + size e x ≤ hiR ∧ Hon e x b0 J) :
    checkInnerInitialized (.ulist cw B len lo hiR inner pmb) = true := by
  subst hlo
  cases pmb with
  | false => simp [checkInnerInitialized]
  | true =>
    rcases hin with rfl | ⟨J, x, b0, rfl, gx, h1, h2, hJ⟩
    · simp [checkInnerInitialized]
    · obtain ⟨c, hc, _, _⟩ := hon_check e false false hok (okField_not_unit e hok) x gx.valid b0 J hJ ⟨lo, hiR⟩ lo
        (Nat.le_refl _) (by omega) h2
      simp [checkInnerInitialized, hc]

/-- Entering element `i` of an honest `UnsizedList` / `UnsizedMap` pointer over canonical bytes. -/
theorem enter_elem (w : World) (x : Which) (hown : OwnsOwn w x) (s : Shape) (v : Val) (i : Nat) (t1 : Shape) (u1 : Val)
    (A C : List Nat) (B : Nat) (g : Good s v) (h1 : resolve1 s v (.elem i) = .ok (t1, u1))
    (hbytes : (w.get x).mem.bytes = A ++ encode s v ++ C) (hB : B = (w.get x).base + A.length)
    (L : PtrTree) (hL : (∃ e vs, s = .ulist e ∧ v = .useq vs ∧ Hon s v B L)
      ∨ (∃ kw e es, s = .umap kw e ∧ v = .umap es ∧ Hon s v B (.node [L]))) :
    listEnter w t1 L i = .ok (treeOf t1 u1 (B + (stepPre s v (.elem i) 0).length))
    ∧ ∃ cw len lo hiR inner pmb, L = .ulist cw B len lo hiR inner pmb := by
  have g1 := (step_facts s v (.elem i) t1 u1 g h1).1
  rcases hL with ⟨e, vs, rfl, rfl, hH⟩ | ⟨kw, e, es, rfl, rfl, hH⟩
  · simp only [resolve1] at h1
    split at h1
    · rename_i xx hx
      cases h1
      have hi : i < vs.length := by
        rcases Nat.lt_or_ge i vs.length with h | h
        · exact h
        · simp [List.getElem?_eq_none h] at hx
      have hxi : vs[i] = u1 := by
        have := List.getElem?_eq_getElem hi; rw [hx] at this; exact (Option.some.inj this).symm
      obtain ⟨top, ie, hok⟩ := g.ok
      simp only [Shape.okAux, Bool.and_eq_true, Bool.not_eq_true'] at hok
      have hv := g.valid
      have hfit := g.fits
      simp only [valid] at hv
      simp only [fits, Bool.and_eq_true, decide_eq_true_eq] at hfit
      have hsizes := map_encode_length t1 vs hv
      have hkeys : ∀ k ∈ vs.map (fun _ => ([] : List Nat)), k.length = 0 := by
        intro k hk; obtain ⟨_, _, rfl⟩ := List.mem_map.1 hk; rfl
      simp only [Hon] at hH
      obtain ⟨inner, pmb, rfl, hin⟩ := hH
      have hchk := hon_checkInner t1 B vs.length B (B + size (.ulist t1) (.useq vs)) 4 inner pmb hok.1 rfl hin
      have := listEnter_ok w x hown 0 (vs.map fun _ => []) (vs.map (encode t1)) A C t1 u1 i B B
        (B + size (.ulist t1) (.useq vs)) inner pmb (by rw [hbytes, encode_ulist_uBytes]) hB (by simp) hkeys
        (by rw [hsizes]; exact hfit.1.2) (by simpa using hi) (by simp [hxi]) g1 hok.2
        (by simpa using hchk)
      simp only [List.length_map, Nat.add_zero] at this
      refine ⟨?_, _, _, _, _, _, _, rfl⟩
      rw [this]
      congr 2
      simp only [stepPre, List.length_append]
      rw [uHdrOf_length 0 _ _ (by simp) hkeys, sum_map_length_flatten]
      simp only [List.map_take, List.length_set, List.length_map]; omega
    · cases h1
  · simp only [resolve1] at h1
    split at h1
    · rename_i kx hx
      cases h1
      have hi : i < es.length := by
        rcases Nat.lt_or_ge i es.length with h | h
        · exact h
        · simp [List.getElem?_eq_none h] at hx
      have hxi : es[i] = kx := by
        have := List.getElem?_eq_getElem hi; rw [hx] at this; exact (Option.some.inj this).symm
      obtain ⟨top, ie, hok⟩ := g.ok
      simp only [Shape.okAux, Bool.and_eq_true, Bool.not_eq_true', decide_eq_true_eq] at hok
      have hv := g.valid
      have hfit := g.fits
      simp only [valid, Bool.and_eq_true] at hv
      simp only [fits, Bool.and_eq_true, decide_eq_true_eq] at hfit
      have hvall : es.all (fun kv => valid t1 kv.2) = true := by
        rw [List.all_eq_true] at hv ⊢
        intro x hx'; have := hv.1 x hx'; simp only [Bool.and_eq_true] at this; exact this.2
      have hsizes := map_encode_length_kv t1 es hvall
      have hkeys : ∀ k ∈ es.map (·.1), k.length = kw := by
        intro k hk; obtain ⟨kv, hkv, rfl⟩ := List.mem_map.1 hk
        have := (List.all_eq_true.1 hv.1) kv hkv
        simp only [Bool.and_eq_true, beq_iff_eq] at this; exact this.1.1
      simp only [Hon] at hH
      obtain ⟨inner, pmb, hEq, hin⟩ := hH
      simp only [PtrTree.node.injEq, List.cons.injEq, and_true] at hEq
      subst hEq
      have hchk := hon_checkInner t1 B es.length B (B + size (.umap kw t1) (.umap es)) (Shape.entryW kw) inner pmb
        hok.1.2 rfl hin
      have := listEnter_ok w x hown kw (es.map (·.1)) (es.map fun kv => encode t1 kv.2) A C t1 kx.2 i B B
        (B + size (.umap kw t1) (.umap es)) inner pmb (by rw [hbytes, encode_umap_uBytes]) hB (by simp) hkeys
        (by rw [hsizes]; exact hfit.1.2) (by simpa using hi) (by simp [hxi]) g1 hok.2
        (by simpa [Shape.entryW] using hchk)
      simp only [List.length_map] at this
      refine ⟨?_, _, _, _, _, _, _, rfl⟩
      simp only [Shape.entryW]
      rw [this]
      congr 2
      simp only [stepPre, List.length_append]
      rw [uHdrOf_length kw _ _ (by simp) hkeys, sum_map_length_flatten]
      simp only [List.map_take, List.length_set, List.length_map]; omega
    · cases h1

end Unsized.Ptr
