import Unsized.RuntimeLemmas
/-!
# The invariant of the C07 machine and one characterisation lemma per operation
-/
namespace Unsized.Runtime

/-- What holds in every state reachable from a fresh, well-formed account. -/
structure Inv (s : State) : Prop where
  acct : AcctOK s.acct
  layout : LayoutOK s.kinds s.counts (s.acct.base + DISC) (s.acct.base + s.acct.len)
  bLt : s.acct.borrow < 256
  /-- data nibble of the borrow byte = mutable flag (bit 3, set = free) + shared borrows still available -/
  bState : s.acct.borrow % 16 = (if s.excl.isSome then 0 else 8) + (7 - s.shared.length)
  shLe : s.shared.length ≤ 7
  exclShared : s.excl.isSome → s.shared = []
  /-- a live wrapper holds the allocation range, the current length and the canonical pointers -/
  wrap : ∀ w, s.excl = some w → w.lo = s.acct.base ∧ w.hi = s.acct.base + s.acct.orig + MAX_INC ∧
    w.dlen = s.acct.len ∧ w.ptrs = ptrsFrom (s.acct.base + DISC) s.kinds s.counts

theorem Inv.len_ge {s : State} (h : Inv s) : DISC ≤ s.acct.len := by
  have := LayoutOK.le h.layout
  omega

theorem Inv.check {s : State} (h : Inv s) {w : Wrapper} (hw : s.excl = some w) : w.check = true := by
  obtain ⟨h1, h2, _, h4⟩ := h.wrap w hw
  unfold Wrapper.check
  rw [h1, h2, h4]
  have := h.acct.cap
  exact check_ptrsFrom h.layout (by omega) (by omega) (by omega)

theorem validateInfo_ok {s : State} (h : Inv s) (hc : 9 ≤ s.acct.borrow % 16) : validateInfo s.acct = .ok () := by
  unfold validateInfo
  have := h.len_ge
  rw [if_neg (by omega), if_neg (by simp [(canBorrowData_iff h.bLt).mpr hc])]

theorem validateInfo_busy {s : State} (h : Inv s) (hc : ¬ 9 ≤ s.acct.borrow % 16) :
    validateInfo s.acct = .error .accountBorrowFailed := by
  unfold validateInfo
  have := h.len_ge
  have : ¬ canBorrowData s.acct.borrow = true := fun x => hc ((canBorrowData_iff h.bLt).mp x)
  rw [if_neg (by omega), if_pos this]

theorem topGetPtr_ok {s : State} (h : Inv s) :
    topGetPtr s s.acct.base s.acct.len = .ok (ptrsFrom (s.acct.base + DISC) s.kinds s.counts, s.counts) := by
  unfold topGetPtr
  have := h.len_ge
  rw [if_neg (by omega), getPtrs_ok h.layout]

/-! ## `Account::data_mut` -/

/-- The state after a successful exclusive borrow. -/
def afterBorrowMut (s : State) : State :=
  { s with acct := { s.acct with borrow := s.acct.borrow - 8 },
           excl := some { h := s.next, ptrs := ptrsFrom (s.acct.base + DISC) s.kinds s.counts, lo := s.acct.base,
                          hi := s.acct.base + s.acct.orig + MAX_INC, dlen := s.acct.len },
           next := s.next + 1 }

theorem accountDataMut_idle {s : State} (h : Inv s) (hw : s.acct.writable = true) (he : s.excl = none)
    (hs : s.shared = []) :
    accountDataMut s = (afterBorrowMut s,
      .borrowedMut s.next s.acct.len s.acct.delta (s.acct.borrow - 8) 0 ((s.acct.orig + MAX_INC : Nat) : Int) s.counts) := by
  have hb := h.bState
  simp only [he, hs, Option.isSome_none, List.length_nil] at hb
  unfold accountDataMut
  rw [if_neg (by simp [hw]), validateInfo_ok h (by omega)]
  simp only []
  rw [dataMut_ok h.acct h.bLt (by omega)]
  simp only []
  have := topGetPtr_ok h
  simp only [this, afterBorrowMut]
  congr 2 <;> omega

theorem accountDataMut_busy {s : State} (h : Inv s)
    (hbusy : s.acct.writable = false ∨ s.excl.isSome = true ∨ s.shared ≠ []) :
    accountDataMut s = (s, .err .accountBorrowFailed) := by
  unfold accountDataMut
  by_cases hw : s.acct.writable = true
  · have hne : s.acct.borrow % 16 ≠ 15 := by
      have hb := h.bState
      have hsl := h.shLe
      rcases hbusy with hb' | hb' | hb'
      · simp [hw] at hb'
      · simp only [hb', if_true] at hb; omega
      · have : 0 < s.shared.length := List.length_pos_iff.mpr hb'
        split at hb <;> omega
    rw [if_neg (by simp [hw])]
    by_cases hc : 9 ≤ s.acct.borrow % 16
    · rw [validateInfo_ok h hc]
      simp only []
      rw [dataMut_refused h.bLt hne]
    · rw [validateInfo_busy h hc]
  · rw [if_pos hw]

/-! ## `Account::data` -/

def afterBorrow (s : State) : State :=
  { s with acct := { s.acct with borrow := s.acct.borrow - 1 }, shared := s.next :: s.shared, next := s.next + 1 }

theorem accountData_free {s : State} (h : Inv s) (he : s.excl = none) (hs : s.shared.length < 7) :
    accountData s = (afterBorrow s, .borrowed s.next s.acct.len s.acct.delta (s.acct.borrow - 1) s.counts) := by
  have hb := h.bState
  simp only [he, Option.isSome_none] at hb
  have hv : (if s.acct.writable then validateInfo s.acct else .ok ()) = .ok () := by
    split
    · exact validateInfo_ok h (by simp at hb; omega)
    · rfl
  unfold accountData
  rw [hv]
  simp only []
  have hc : canBorrowData s.acct.borrow = true := (canBorrowData_iff h.bLt).mpr (by simp at hb; omega)
  simp only [tryBorrowData, hc, if_true]
  have := topGetPtr_ok h
  simp only [this, afterBorrow]

theorem accountData_busy {s : State} (h : Inv s) (hbusy : s.excl.isSome = true ∨ s.shared.length = 7) :
    accountData s = (s, .err .accountBorrowFailed) := by
  have hb := h.bState
  have hc : ¬ 9 ≤ s.acct.borrow % 16 := by
    rcases hbusy with hb' | hb'
    · simp only [hb', if_true] at hb; omega
    · split at hb <;> omega
  have hcb : ¬ canBorrowData s.acct.borrow = true := fun x => hc ((canBorrowData_iff h.bLt).mp x)
  unfold accountData
  by_cases hw : s.acct.writable = true
  · simp only [hw, if_true, validateInfo_busy h hc]
  · simp only [hw]
    simp only [tryBorrowData, hcb, if_false]
    rfl

/-! ## release -/

def afterReleaseExcl (s : State) : State :=
  { s with acct := { s.acct with borrow := s.acct.borrow + 8 }, excl := none }

def afterReleaseShared (s : State) (k : Nat) : State :=
  { s with acct := { s.acct with borrow := s.acct.borrow + 1 }, shared := s.shared.erase k }

theorem release_excl {s : State} (h : Inv s) {w : Wrapper} (he : s.excl = some w) (hk : w.h = k) :
    release s k = (afterReleaseExcl s, .released (s.acct.borrow + 8)) := by
  have hb := h.bState
  simp only [he, Option.isSome_some, if_true] at hb
  have hor : s.acct.borrow ||| 8 = s.acct.borrow + 8 := by
    rw [lor8_eq _ h.bLt, if_pos (by omega)]
  unfold release
  simp only [he, hk, if_true, h.check he, dropRefMut, hor, afterReleaseExcl]

theorem release_shared {s : State} (h : Inv s) (he : s.excl = none) (hm : k ∈ s.shared) :
    release s k = (afterReleaseShared s k, .released (s.acct.borrow + 1)) := by
  unfold release
  simp only [he, hm, if_true, dropRef, afterReleaseShared]

theorem release_dead {s : State} (hm : k ∉ s.shared) (he : ∀ w, s.excl = some w → w.h ≠ k) :
    release s k = (s, .badOp) := by
  unfold release
  cases hx : s.excl with
  | none => simp [hm]
  | some w => simp [he w hx, hm]

/-! ## Invariant preservation for the borrow / release transitions -/

theorem inv_afterBorrowMut {s : State} (h : Inv s) (he : s.excl = none) (hs : s.shared = []) :
    Inv (afterBorrowMut s) := by
  have hb := h.bState
  simp only [he, hs, Option.isSome_none, List.length_nil] at hb
  have hlt := h.bLt
  refine ⟨⟨h.acct.delta, h.acct.cap, h.acct.small, h.acct.baseOk⟩, h.layout, ?_, ?_, ?_, ?_, ?_⟩
  · show s.acct.borrow - 8 < 256; omega
  · show (s.acct.borrow - 8) % 16 = _
    simp only [afterBorrowMut, Option.isSome_some, if_true, hs, List.length_nil]
    omega
  · simp [afterBorrowMut, hs]
  · intro _; simp [afterBorrowMut, hs]
  · intro w hw
    simp only [afterBorrowMut, Option.some.injEq] at hw
    subst hw
    exact ⟨rfl, rfl, rfl, rfl⟩

theorem inv_afterBorrow {s : State} (h : Inv s) (he : s.excl = none) (hs : s.shared.length < 7) :
    Inv (afterBorrow s) := by
  have hb := h.bState
  simp only [he, Option.isSome_none] at hb
  have hlt := h.bLt
  refine ⟨⟨h.acct.delta, h.acct.cap, h.acct.small, h.acct.baseOk⟩, h.layout, ?_, ?_, ?_, ?_, ?_⟩
  · show s.acct.borrow - 1 < 256; omega
  · show (s.acct.borrow - 1) % 16 = _
    simp only [afterBorrow, he, Option.isSome_none, List.length_cons]
    simp at hb
    omega
  · simp only [afterBorrow, List.length_cons]; omega
  · intro hx; simp [afterBorrow, he] at hx
  · intro w hw; simp [afterBorrow, he] at hw

theorem inv_afterReleaseExcl {s : State} (h : Inv s) (he : s.excl.isSome = true) : Inv (afterReleaseExcl s) := by
  have hb := h.bState
  have hsh := h.exclShared he
  simp only [he, if_true, hsh, List.length_nil] at hb
  have hlt := h.bLt
  refine ⟨⟨h.acct.delta, h.acct.cap, h.acct.small, h.acct.baseOk⟩, h.layout, ?_, ?_, ?_, ?_, ?_⟩
  · show s.acct.borrow + 8 < 256; omega
  · show (s.acct.borrow + 8) % 16 = _
    simp only [afterReleaseExcl, Option.isSome_none, hsh, List.length_nil]
    omega
  · exact h.shLe
  · intro hx; simp [afterReleaseExcl] at hx
  · intro w hw; simp [afterReleaseExcl] at hw

theorem inv_afterReleaseShared {s : State} (h : Inv s) (he : s.excl = none) (hm : k ∈ s.shared) :
    Inv (afterReleaseShared s k) := by
  have hb := h.bState
  simp only [he, Option.isSome_none] at hb
  have hlt := h.bLt
  have hsl := h.shLe
  have hlen : (s.shared.erase k).length = s.shared.length - 1 := List.length_erase_of_mem hm
  have hpos : 0 < s.shared.length := List.length_pos_of_mem hm
  refine ⟨⟨h.acct.delta, h.acct.cap, h.acct.small, h.acct.baseOk⟩, h.layout, ?_, ?_, ?_, ?_, ?_⟩
  · show s.acct.borrow + 1 < 256
    simp at hb; omega
  · show (s.acct.borrow + 1) % 16 = _
    simp only [afterReleaseShared, he, Option.isSome_none, hlen]
    simp at hb
    omega
  · simp only [afterReleaseShared, hlen]; omega
  · intro hx; simp [afterReleaseShared, he] at hx
  · intro w hw; simp [afterReleaseShared, he] at hw

end Unsized.Runtime
