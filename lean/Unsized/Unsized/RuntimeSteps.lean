import Unsized.RuntimeLemmas
/-!
# The invariant of the C07 machine and one characterisation lemma per operation
-/
namespace Unsized.Runtime

/-- What holds in every state reachable from a fresh, well-formed account. -/
structure Inv (s : State) : Prop where
  acct : AcctOK s.acct
  layout : LayoutOK s.kinds s.counts (s.acct.base + DISC) (s.acct.base + s.acct.len)
  bLt : s.acct.borrow < 256
  /-- data nibble of the borrow byte = mutable flag (bit 3, set = free) + shared borrows still available -/
  bFree : s.excl = none → s.acct.borrow % 16 = 15 - s.shared.length
  /-- while the exclusive borrow is live: flag bit clear, all 7 shared borrows available -/
  bBusy : s.excl.isSome = true → s.acct.borrow % 16 = 7
  shLe : s.shared.length ≤ 7
  exclShared : s.excl.isSome → s.shared = []
  /-- a live wrapper holds the allocation range, the current length and the canonical pointers -/
  wrap : ∀ w, s.excl = some w → w.lo = s.acct.base ∧ w.hi = s.acct.base + s.acct.orig + MAX_INC ∧
    w.dlen = s.acct.len ∧ w.ptrs = ptrsFrom (s.acct.base + DISC) s.kinds s.counts

theorem Inv.len_ge {s : State} (h : Inv s) : DISC ≤ s.acct.len := by
  have := LayoutOK.le h.layout
  omega

theorem Inv.check {s : State} (h : Inv s) {w : Wrapper} (hw : s.excl = some w) : w.check = true := by
  obtain ⟨h1, h2, _, h4⟩ := h.wrap w hw
  unfold Wrapper.check
  rw [h1, h2, h4]
  have := h.acct.cap
  exact check_ptrsFrom h.layout (by omega) (by omega) (by omega)

theorem validateInfo_ok {s : State} (h : Inv s) (hc : 9 ≤ s.acct.borrow % 16) : validateInfo s.acct = .ok () := by
  unfold validateInfo
  have := h.len_ge
  rw [if_neg (by omega), if_neg (by simp [(canBorrowData_iff h.bLt).mpr hc])]

theorem validateInfo_busy {s : State} (h : Inv s) (hc : ¬ 9 ≤ s.acct.borrow % 16) :
    validateInfo s.acct = .error .accountBorrowFailed := by
  unfold validateInfo
  have := h.len_ge
  have : ¬ canBorrowData s.acct.borrow = true := fun x => hc ((canBorrowData_iff h.bLt).mp x)
  rw [if_neg (by omega), if_pos this]

theorem topGetPtr_ok {s : State} (h : Inv s) :
    topGetPtr s s.acct.base s.acct.len = .ok (ptrsFrom (s.acct.base + DISC) s.kinds s.counts, s.counts) := by
  unfold topGetPtr
  have := h.len_ge
  rw [if_neg (by omega), getPtrs_ok h.layout]

/-! ## `Account::data_mut` -/

/-- The state after a successful exclusive borrow. -/
def afterBorrowMut (s : State) : State :=
  { s with acct := { s.acct with borrow := s.acct.borrow - 8 },
           excl := some { h := s.next, ptrs := ptrsFrom (s.acct.base + DISC) s.kinds s.counts, lo := s.acct.base,
                          hi := s.acct.base + s.acct.orig + MAX_INC, dlen := s.acct.len },
           next := s.next + 1 }

theorem accountDataMut_idle {s : State} (h : Inv s) (hw : s.acct.writable = true) (he : s.excl = none)
    (hs : s.shared = []) :
    accountDataMut s = (afterBorrowMut s,
      .borrowedMut s.next s.acct.len s.acct.delta (s.acct.borrow - 8) 0 ((s.acct.orig + MAX_INC : Nat) : Int) s.counts) := by
  have hb := h.bFree he
  simp only [hs, List.length_nil] at hb
  unfold accountDataMut
  rw [if_neg (by simp [hw]), validateInfo_ok h (by omega)]
  simp only []
  rw [dataMut_ok h.acct h.bLt (by omega)]
  simp only []
  have := topGetPtr_ok h
  simp only [this, afterBorrowMut]
  congr 2 <;> omega

theorem accountDataMut_busy {s : State} (h : Inv s)
    (hbusy : s.acct.writable = false ∨ s.excl.isSome = true ∨ s.shared ≠ []) :
    accountDataMut s = (s, .err .accountBorrowFailed) := by
  unfold accountDataMut
  by_cases hw : s.acct.writable = true
  · have hne : s.acct.borrow % 16 ≠ 15 := by
      have hsl := h.shLe
      rcases hbusy with hb' | hb' | hb'
      · simp [hw] at hb'
      · have := h.bBusy hb'; omega
      · have : 0 < s.shared.length := List.length_pos_iff.mpr hb'
        cases hx : s.excl with
        | none => have := h.bFree hx; omega
        | some w => have := h.bBusy (by simp [hx]); omega
    rw [if_neg (by simp [hw])]
    by_cases hc : 9 ≤ s.acct.borrow % 16
    · rw [validateInfo_ok h hc]
      simp only []
      rw [dataMut_refused h.bLt hne]
    · rw [validateInfo_busy h hc]
  · rw [if_pos hw]

/-! ## `Account::data` -/

def afterBorrow (s : State) : State :=
  { s with acct := { s.acct with borrow := s.acct.borrow - 1 }, shared := s.next :: s.shared, next := s.next + 1 }

theorem accountData_free {s : State} (h : Inv s) (he : s.excl = none) (hs : s.shared.length < 7) :
    accountData s = (afterBorrow s, .borrowed s.next s.acct.len s.acct.delta (s.acct.borrow - 1) s.counts) := by
  have hb := h.bFree he
  have hv : (if s.acct.writable then validateInfo s.acct else .ok ()) = .ok () := by
    split
    · exact validateInfo_ok h (by omega)
    · rfl
  unfold accountData
  rw [hv]
  simp only []
  have hc : canBorrowData s.acct.borrow = true := (canBorrowData_iff h.bLt).mpr (by omega)
  simp only [tryBorrowData, hc, if_true]
  have := topGetPtr_ok h
  simp only [this, afterBorrow]

theorem accountData_busy {s : State} (h : Inv s) (hbusy : s.excl.isSome = true ∨ s.shared.length = 7) :
    accountData s = (s, .err .accountBorrowFailed) := by
  have hc : ¬ 9 ≤ s.acct.borrow % 16 := by
    rcases hbusy with hb' | hb'
    · have := h.bBusy hb'; omega
    · cases hx : s.excl with
      | none => have := h.bFree hx; omega
      | some w => have := h.bBusy (by simp [hx]); omega
  have hcb : ¬ canBorrowData s.acct.borrow = true := fun x => hc ((canBorrowData_iff h.bLt).mp x)
  unfold accountData
  by_cases hw : s.acct.writable = true
  · simp only [hw, if_true, validateInfo_busy h hc]
  · simp only [hw]
    simp only [tryBorrowData, hcb, if_false]
    rfl

/-! ## release -/

def afterReleaseExcl (s : State) : State :=
  { s with acct := { s.acct with borrow := s.acct.borrow + 8 }, excl := none }

def afterReleaseShared (s : State) (k : Nat) : State :=
  { s with acct := { s.acct with borrow := s.acct.borrow + 1 }, shared := s.shared.erase k }

theorem release_excl {s : State} (h : Inv s) {w : Wrapper} (he : s.excl = some w) (hk : w.h = k) :
    release s k = (afterReleaseExcl s, .released (s.acct.borrow + 8)) := by
  have hb := h.bBusy (by simp [he])
  have hor : s.acct.borrow ||| 8 = s.acct.borrow + 8 := by
    rw [lor8_eq _ h.bLt, if_pos (by omega)]
  unfold release
  simp only [he, hk, if_true, h.check he, dropRefMut, hor, afterReleaseExcl]

theorem release_shared {s : State} (h : Inv s) (he : s.excl = none) (hm : k ∈ s.shared) :
    release s k = (afterReleaseShared s k, .released (s.acct.borrow + 1)) := by
  unfold release
  simp only [he, hm, if_true, dropRef, afterReleaseShared]

theorem release_dead {s : State} (hm : k ∉ s.shared) (he : ∀ w, s.excl = some w → w.h ≠ k) :
    release s k = (s, .badOp) := by
  unfold release
  cases hx : s.excl with
  | none => simp [hm]
  | some w => simp [he w hx, hm]

/-! ## Invariant preservation for the borrow / release transitions -/

theorem inv_afterBorrowMut {s : State} (h : Inv s) (he : s.excl = none) (hs : s.shared = []) :
    Inv (afterBorrowMut s) := by
  have hb := h.bFree he
  simp only [hs, List.length_nil] at hb
  have hlt := h.bLt
  refine ⟨⟨h.acct.delta, h.acct.cap, h.acct.small, h.acct.baseOk⟩, h.layout, ?_, ?_, ?_, ?_, ?_, ?_⟩
  · show s.acct.borrow - 8 < 256; omega
  · intro hx; simp [afterBorrowMut] at hx
  · intro _
    show (s.acct.borrow - 8) % 16 = 7
    omega
  · simp [afterBorrowMut, hs]
  · intro _; simp [afterBorrowMut, hs]
  · intro w hw
    simp only [afterBorrowMut, Option.some.injEq] at hw
    subst hw
    exact ⟨rfl, rfl, rfl, rfl⟩

theorem inv_afterBorrow {s : State} (h : Inv s) (he : s.excl = none) (hs : s.shared.length < 7) :
    Inv (afterBorrow s) := by
  have hb := h.bFree he
  have hlt := h.bLt
  refine ⟨⟨h.acct.delta, h.acct.cap, h.acct.small, h.acct.baseOk⟩, h.layout, ?_, ?_, ?_, ?_, ?_, ?_⟩
  · show s.acct.borrow - 1 < 256; omega
  · intro _
    show (s.acct.borrow - 1) % 16 = 15 - (s.next :: s.shared).length
    simp only [List.length_cons]
    omega
  · intro hx; simp [afterBorrow, he] at hx
  · simp only [afterBorrow, List.length_cons]; omega
  · intro hx; simp [afterBorrow, he] at hx
  · intro w hw; simp [afterBorrow, he] at hw

theorem inv_afterReleaseExcl {s : State} (h : Inv s) (he : s.excl.isSome = true) : Inv (afterReleaseExcl s) := by
  have hb := h.bBusy he
  have hsh := h.exclShared he
  have hlt := h.bLt
  refine ⟨⟨h.acct.delta, h.acct.cap, h.acct.small, h.acct.baseOk⟩, h.layout, ?_, ?_, ?_, ?_, ?_, ?_⟩
  · show s.acct.borrow + 8 < 256; omega
  · intro _
    show (s.acct.borrow + 8) % 16 = 15 - s.shared.length
    rw [hsh]; simp only [List.length_nil]
    omega
  · intro hx; simp [afterReleaseExcl] at hx
  · exact h.shLe
  · intro hx; simp [afterReleaseExcl] at hx
  · intro w hw; simp [afterReleaseExcl] at hw

theorem inv_afterReleaseShared {s : State} (h : Inv s) (he : s.excl = none) (hm : k ∈ s.shared) :
    Inv (afterReleaseShared s k) := by
  have hb := h.bFree he
  have hlt := h.bLt
  have hsl := h.shLe
  have hlen : (s.shared.erase k).length = s.shared.length - 1 := List.length_erase_of_mem hm
  have hpos : 0 < s.shared.length := List.length_pos_of_mem hm
  refine ⟨⟨h.acct.delta, h.acct.cap, h.acct.small, h.acct.baseOk⟩, h.layout, ?_, ?_, ?_, ?_, ?_, ?_⟩
  · show s.acct.borrow + 1 < 256
    omega
  · intro _
    show (s.acct.borrow + 1) % 16 = 15 - (s.shared.erase k).length
    rw [hlen]
    omega
  · intro hx; simp [afterReleaseShared, he] at hx
  · simp only [afterReleaseShared, hlen]; omega
  · intro hx; simp [afterReleaseShared, he] at hx
  · intro w hw; simp [afterReleaseShared, he] at hw


/-! ## grow / shrink through the live exclusive borrow -/

theorem Kind.width_add {k : Kind} (hns : k.isSized = false) (c n : Nat) :
    k.width (c + n) = k.width c + k.unit * n := by
  cases k <;> simp [Kind.isSized] at hns <;> simp [Kind.width, Kind.unit] <;> omega

theorem Kind.unit_pos {k : Kind} (hns : k.isSized = false) : 0 < k.unit := by
  cases k <;> simp [Kind.isSized] at hns <;> simp [Kind.unit]

theorem set_same : ∀ {cs : List Nat} {f c : Nat}, cs[f]? = some c → cs.set f c = cs
  | [], _, _, h => by simp at h
  | _ :: _, 0, _, h => by simp at h; simp [List.set, h]
  | _ :: cs, f + 1, c, h => by
    simp only [List.getElem?_cons_succ] at h
    simp [List.set, set_same h]

/-- The state after a resize of field `f` to `c'` elements with new data length `newLen`. -/
def afterResize (s : State) (w : Wrapper) (f c' newLen : Nat) : State :=
  { s with acct := { s.acct with len := newLen, delta := (newLen : Int) - (s.acct.orig : Int) },
           excl := some { w with dlen := newLen, ptrs := ptrsFrom (s.acct.base + DISC) s.kinds (s.counts.set f c') },
           counts := s.counts.set f c' }

theorem afterResize_id {s : State} (h : Inv s) {w : Wrapper} (he : s.excl = some w) {f c : Nat}
    (hc : s.counts[f]? = some c) : afterResize s w f c s.acct.len = s := by
  obtain ⟨_, _, h3, h4⟩ := h.wrap w he
  have hd := h.acct.delta
  cases s with
  | mk acct kinds counts excl shared next =>
    cases acct with
    | mk orig len delta borrow base writable =>
      cases w with
      | mk wh wptrs wlo whi wdlen =>
        simp only at he h3 h4 hd hc
        subst he h3 h4 hd
        simp only [afterResize, set_same hc]

theorem inv_afterResize {s : State} (h : Inv s) {w : Wrapper} (he : s.excl = some w) {f c' newLen : Nat}
    (hl : LayoutOK s.kinds (s.counts.set f c') (s.acct.base + DISC) (s.acct.base + newLen))
    (hfit : newLen ≤ s.acct.orig + MAX_INC) : Inv (afterResize s w f c' newLen) := by
  obtain ⟨h1, h2, _, _⟩ := h.wrap w he
  refine ⟨⟨rfl, hfit, h.acct.small, h.acct.baseOk⟩, hl, h.bLt, ?_, ?_, h.shLe, ?_, ?_⟩
  · intro hx; simp [afterResize] at hx
  · intro _; exact h.bBusy (by simp [he])
  · intro _; exact h.exclShared (by simp [he])
  · intro w' hw'
    simp only [afterResize, Option.some.injEq] at hw'
    subst hw'
    exact ⟨h1, h2, rfl, rfl⟩

theorem state_eta {s : State} {w : Wrapper} (he : s.excl = some w) :
    ({ s with acct := s.acct, excl := some w } : State) = s := by
  cases s with
  | mk acct kinds counts excl shared next =>
    simp only at he
    subst he
    rfl

/-- A growth that stays within the allowance succeeds and yields the grown state. -/
theorem grow_fits {s : State} (h : Inv s) {w : Wrapper} (he : s.excl = some w) {f n : Nat} {k : Kind} {c : Nat}
    (hk : s.kinds[f]? = some k) (hc : s.counts[f]? = some c) (hns : k.isSized = false) (hn : n ≤ N_CAP)
    (hfit : s.acct.len + k.unit * n ≤ s.acct.orig + MAX_INC) :
    grow s f n = (afterResize s w f (c + n) (s.acct.len + k.unit * n),
      .resized (s.acct.len + k.unit * n) (((s.acct.len + k.unit * n : Nat) : Int) - (s.acct.orig : Int))
        (s.counts.set f (c + n))) ∧
    Inv (afterResize s w f (c + n) (s.acct.len + k.unit * n)) := by
  obtain ⟨h1, h2, h3, h4⟩ := h.wrap w he
  obtain ⟨p, hp⟩ := ptrsFrom_getElem?_isSome (off := s.acct.base + DISC) hk hc
  have hp' : w.ptrs[f]? = some p := by rw [h4]; exact hp
  obtain ⟨hn1, hn2, hn3, hn4⟩ := notifyUp_ptrsFrom (c' := c + n) (amt := k.unit * n) h.layout hk hc hp
    (Kind.width_add hns c n)
  have hinv : Inv (afterResize s w f (c + n) (s.acct.len + k.unit * n)) :=
    inv_afterResize h he (by rw [← Nat.add_assoc]; exact hn2) hfit
  refine ⟨?_, hinv⟩
  have hup := Kind.unit_pos hns
  by_cases hn0 : n = 0
  · -- nothing changes
    subst hn0
    have hid : afterResize s w f (c + 0) (s.acct.len + k.unit * 0) = s := by
      simpa using afterResize_id h he hc
    have hdl := h.acct.delta
    simp only [Nat.mul_zero, Nat.add_zero] at hid ⊢
    rw [hid, ← hdl, set_same hc]
    unfold grow
    simp only [he, hk, hc, hp']
    rw [if_neg (by simp [hns])]
    by_cases hr : k = .remaining
    · rw [if_pos (by simp [hr])]
    · rw [if_neg (by simp [hr])]
      simp only [addBytes, h.check he, not_true_eq_false, if_false, Nat.mul_zero, if_true]
      rw [if_neg (by omega), if_neg (by omega)]
      simp only [Nat.add_zero, setCount, set_same hc, state_eta he, ← hdl]
  · unfold grow
    simp only [he, hk, hc, hp']
    rw [if_neg (by simp [hns]; omega), if_neg (by simp [hn0])]
    have hamt : k.unit * n ≠ 0 := by
      have : 0 < k.unit * n := Nat.mul_pos hup (by omega)
      omega
    obtain ⟨fill, hrs⟩ := resize_ok h.acct (n := w.dlen + k.unit * n) (by omega) (by omega)
    simp only [addBytes, h.check he, not_true_eq_false, if_false]
    rw [if_neg (by omega), if_neg (by omega), if_neg hamt, hrs]
    simp only [h4, hn1, afterResize, h3, setCount]

/-- A growth past the allowance is an `InvalidRealloc` error at that very operation and changes nothing. -/
theorem grow_over {s : State} (h : Inv s) {w : Wrapper} (he : s.excl = some w) {f n : Nat} {k : Kind} {c : Nat}
    (hk : s.kinds[f]? = some k) (hc : s.counts[f]? = some c) (hns : k.isSized = false) (hn : n ≤ N_CAP)
    (hover : s.acct.orig + MAX_INC < s.acct.len + k.unit * n) :
    grow s f n = (s, .err .invalidRealloc) := by
  obtain ⟨h1, h2, h3, h4⟩ := h.wrap w he
  obtain ⟨p, hp⟩ := ptrsFrom_getElem?_isSome (off := s.acct.base + DISC) hk hc
  have hp' : w.ptrs[f]? = some p := by rw [h4]; exact hp
  obtain ⟨_, _, hn3, hn4⟩ := notifyUp_ptrsFrom (c' := c + n) (amt := k.unit * n) h.layout hk hc hp
    (Kind.width_add hns c n)
  have hcap := h.acct.cap
  have hamt : k.unit * n ≠ 0 := by omega
  have hn0 : n ≠ 0 := by intro h0; subst h0; simp at hamt
  unfold grow
  simp only [he, hk, hc, hp']
  rw [if_neg (by simp [hns]; omega), if_neg (by simp [hn0])]
  simp only [addBytes, h.check he, not_true_eq_false, if_false]
  rw [if_neg (by omega), if_neg (by omega), if_neg hamt, resize_over h.acct (by omega)]
  simp only [state_eta he]


theorem Kind.width_sub {k : Kind} (hns : k.isSized = false) {c n : Nat} (hnc : n ≤ c) :
    k.width c = k.width (c - n) + k.unit * n := by
  cases k <;> simp [Kind.isSized] at hns <;> simp [Kind.width, Kind.unit] <;> omega

theorem Kind.width_pos {k : Kind} (hns : k.isSized = false) (hr : k ≠ .remaining) (c : Nat) : 0 < k.width c := by
  cases k <;> simp [Kind.isSized] at hns <;> simp [Kind.width] at * <;> omega

theorem shrinkSpan_spec {k : Kind} (hns : k.isSized = false) {p c n : Nat} (hnc : n ≤ c) :
    p ≤ (shrinkSpan k p c n).1 ∧ (shrinkSpan k p c n).1 ≤ (shrinkSpan k p c n).2 ∧
      (shrinkSpan k p c n).2 ≤ p + k.width c ∧ (shrinkSpan k p c n).2 - (shrinkSpan k p c n).1 = k.unit * n := by
  cases k with
  | sized w => simp [Kind.isSized] at hns
  | list => simp [shrinkSpan, Kind.width, Kind.unit]; omega
  | remaining => simp [shrinkSpan, Kind.width, Kind.unit]; omega
  | ulist =>
    simp only [shrinkSpan, Kind.width, Kind.unit]
    by_cases hx : n = c
    · simp only [hx, if_true]; omega
    · simp only [hx, if_false]; omega

/-- Shrinking always succeeds (by any amount, in particular by more than the growth allowance). -/
theorem shrink_ok {s : State} (h : Inv s) {w : Wrapper} (he : s.excl = some w) {f n : Nat} {k : Kind} {c : Nat}
    (hk : s.kinds[f]? = some k) (hc : s.counts[f]? = some c) (hns : k.isSized = false) (hn : n ≤ N_CAP)
    (hnc : n ≤ c) :
    shrink s f n = (afterResize s w f (c - n) (s.acct.len - k.unit * n),
      .resized (s.acct.len - k.unit * n) (((s.acct.len - k.unit * n : Nat) : Int) - (s.acct.orig : Int))
        (s.counts.set f (c - n))) ∧
    Inv (afterResize s w f (c - n) (s.acct.len - k.unit * n)) ∧ k.unit * n ≤ s.acct.len := by
  obtain ⟨h1, h2, h3, h4⟩ := h.wrap w he
  obtain ⟨p, hp⟩ := ptrsFrom_getElem?_isSome (off := s.acct.base + DISC) hk hc
  have hp' : w.ptrs[f]? = some p := by rw [h4]; exact hp
  have hws := Kind.width_sub hns hnc
  obtain ⟨hn1, hn2, hn3, hn4⟩ := notifyDown_ptrsFrom (c' := c - n) (amt := k.unit * n) h.layout hk hc hp
    hws (fun hr => Kind.width_pos hns hr _)
  obtain ⟨sp1, sp2, sp3, sp4⟩ := shrinkSpan_spec hns (p := p.addr) hnc
  have hcap := h.acct.cap
  have hle : k.unit * n ≤ s.acct.len := by omega
  have hinv : Inv (afterResize s w f (c - n) (s.acct.len - k.unit * n)) :=
    inv_afterResize h he (by
      have e : s.acct.base + (s.acct.len - k.unit * n) = s.acct.base + s.acct.len - k.unit * n := by omega
      rw [e]; exact hn2) (by omega)
  refine ⟨?_, hinv, hle⟩
  have hup := Kind.unit_pos hns
  by_cases hn0 : n = 0
  · subst hn0
    have hid : afterResize s w f (c - 0) (s.acct.len - k.unit * 0) = s := by
      simpa using afterResize_id h he hc
    have hdl := h.acct.delta
    simp only [Nat.mul_zero, Nat.sub_zero] at hid sp4 ⊢
    rw [hid, ← hdl, set_same hc]
    unfold shrink
    simp only [he, hk, hc, hp']
    rw [if_neg (by simp [hns])]
    by_cases hr : k = .remaining
    · rw [if_pos (by simp [hr])]
    · rw [if_neg (by simp [hr])]
      simp only [removeBytes, h.check he, not_true_eq_false, if_false]
      rw [if_neg (by omega), if_neg (by omega), if_neg (by omega), if_neg (by omega), if_pos sp4]
      simp only [Nat.sub_zero, setCount, set_same hc, state_eta he, ← hdl]
  · unfold shrink
    simp only [he, hk, hc, hp']
    rw [if_neg (by simp [hns]; omega), if_neg (by simp [hn0])]
    have hamt : k.unit * n ≠ 0 := by
      have : 0 < k.unit * n := Nat.mul_pos hup (by omega)
      omega
    obtain ⟨fill, hrs⟩ := resize_ok h.acct (n := w.dlen - k.unit * n) (by omega) (by omega)
    simp only [removeBytes, h.check he, not_true_eq_false, if_false]
    rw [if_neg (by omega), if_neg (by omega), if_neg (by omega), if_neg (by omega), if_neg (by omega), sp4, hrs]
    simp only [h4, hn1, afterResize, h3, setCount]

/-! ## grow / shrink: inapplicable lines -/

theorem grow_bad {s : State} (hbad : s.excl = none ∨ s.kinds[f]? = none ∨ (∃ k, s.kinds[f]? = some k ∧ k.isSized = true) ∨
    N_CAP < n) : grow s f n = (s, .badOp) := by
  unfold grow
  cases he : s.excl with
  | none => rfl
  | some w =>
    simp only []
    cases hk : s.kinds[f]? with
    | none => simp
    | some k =>
      cases hc : s.counts[f]? with
      | none => simp
      | some c =>
        cases hp : w.ptrs[f]? with
        | none => simp
        | some p =>
          simp only []
          rcases hbad with hb | hb | ⟨k', hb, hs⟩ | hb
          · simp [he] at hb
          · simp [hk] at hb
          · rw [hk] at hb; cases hb
            rw [if_pos (Or.inl hs)]
          · rw [if_pos (Or.inr hb)]


theorem shrink_bad {s : State} (hbad : s.excl = none ∨ s.kinds[f]? = none ∨
    (∃ k, s.kinds[f]? = some k ∧ k.isSized = true) ∨ N_CAP < n ∨ (∃ c, s.counts[f]? = some c ∧ c < n)) :
    shrink s f n = (s, .badOp) := by
  unfold shrink
  cases he : s.excl with
  | none => rfl
  | some w =>
    simp only []
    cases hk : s.kinds[f]? with
    | none => simp
    | some k =>
      cases hc : s.counts[f]? with
      | none => simp
      | some c =>
        cases hp : w.ptrs[f]? with
        | none => simp
        | some p =>
          simp only []
          rcases hbad with hb | hb | ⟨k', hb, hs⟩ | hb | ⟨c', hb, hs⟩
          · simp [he] at hb
          · simp [hk] at hb
          · rw [hk] at hb; cases hb
            rw [if_pos (Or.inl hs)]
          · rw [if_pos (Or.inr (Or.inl hb))]
          · rw [hc] at hb; cases hb
            rw [if_pos (Or.inr (Or.inr hs))]

theorem Inv.counts_some {s : State} (h : Inv s) {f : Nat} {k : Kind} (hk : s.kinds[f]? = some k) :
    ∃ c, s.counts[f]? = some c := by
  have hl := LayoutOK.length_eq h.layout
  have : f < s.kinds.length := by
    rcases Nat.lt_or_ge f s.kinds.length with h' | h'
    · exact h'
    · rw [List.getElem?_eq_none h'] at hk; cases hk
  exact ⟨s.counts[f]'(by omega), List.getElem?_eq_getElem (by omega)⟩

/-- Every operation preserves the invariant and never panics. -/
theorem step_inv {s : State} (h : Inv s) (op : Op) : Inv (step s op).1 ∧ (step s op).2 ≠ .panic := by
  cases op with
  | borrowMut =>
    by_cases hi : s.acct.writable = true ∧ s.excl = none ∧ s.shared = []
    · obtain ⟨hw, he, hs⟩ := hi
      simp only [step, accountDataMut_idle h hw he hs]
      exact ⟨inv_afterBorrowMut h he hs, by simp⟩
    · have : s.acct.writable = false ∨ s.excl.isSome = true ∨ s.shared ≠ [] := by
        by_cases hw : s.acct.writable = true
        · by_cases he : s.excl = none
          · right; right; intro hs; exact hi ⟨hw, he, hs⟩
          · right; left; cases hx : s.excl with
            | none => exact absurd hx he
            | some w => rfl
        · left; simpa using hw
      simp only [step, accountDataMut_busy h this]
      exact ⟨h, by simp⟩
  | borrow =>
    by_cases hi : s.excl = none ∧ s.shared.length < 7
    · simp only [step, accountData_free h hi.1 hi.2]
      exact ⟨inv_afterBorrow h hi.1 hi.2, by simp⟩
    · have : s.excl.isSome = true ∨ s.shared.length = 7 := by
        cases hx : s.excl with
        | none => right; have := h.shLe; have : ¬ s.shared.length < 7 := fun x => hi ⟨hx, x⟩; omega
        | some w => left; rfl
      simp only [step, accountData_busy h this]
      exact ⟨h, by simp⟩
  | release k =>
    cases hx : s.excl with
    | some w =>
      by_cases hk : w.h = k
      · simp only [step, release_excl h hx hk]
        exact ⟨inv_afterReleaseExcl h (by simp [hx]), by simp⟩
      · have hs := h.exclShared (by simp [hx])
        have : release s k = (s, .badOp) := release_dead (by simp [hs]) (fun w' hw' => by
          rw [hx] at hw'; cases hw'; exact hk)
        simp only [step, this]
        exact ⟨h, by simp⟩
    | none =>
      by_cases hm : k ∈ s.shared
      · simp only [step, release_shared h hx hm]
        exact ⟨inv_afterReleaseShared h hx hm, by simp⟩
      · have : release s k = (s, .badOp) := release_dead hm (fun w' hw' => by rw [hx] at hw'; cases hw')
        simp only [step, this]
        exact ⟨h, by simp⟩
  | grow f n =>
    cases hx : s.excl with
    | none => simp only [step, grow_bad (Or.inl hx)]; exact ⟨h, by simp⟩
    | some w =>
      cases hk : s.kinds[f]? with
      | none => simp only [step, grow_bad (Or.inr (Or.inl hk))]; exact ⟨h, by simp⟩
      | some k =>
        obtain ⟨c, hc⟩ := h.counts_some hk
        by_cases hs : k.isSized = true
        · simp only [step, grow_bad (Or.inr (Or.inr (Or.inl ⟨k, hk, hs⟩)))]; exact ⟨h, by simp⟩
        · have hns : k.isSized = false := by simpa using hs
          by_cases hn : N_CAP < n
          · simp only [step, grow_bad (Or.inr (Or.inr (Or.inr hn)))]; exact ⟨h, by simp⟩
          · by_cases hfit : s.acct.len + k.unit * n ≤ s.acct.orig + MAX_INC
            · obtain ⟨e, hi⟩ := grow_fits (n := n) h hx hk hc hns (by omega) hfit
              simp only [step, e]
              exact ⟨hi, by simp⟩
            · simp only [step, grow_over (n := n) h hx hk hc hns (by omega) (by omega)]
              exact ⟨h, by simp⟩
  | shrink f n =>
    cases hx : s.excl with
    | none => simp only [step, shrink_bad (Or.inl hx)]; exact ⟨h, by simp⟩
    | some w =>
      cases hk : s.kinds[f]? with
      | none => simp only [step, shrink_bad (Or.inr (Or.inl hk))]; exact ⟨h, by simp⟩
      | some k =>
        obtain ⟨c, hc⟩ := h.counts_some hk
        by_cases hs : k.isSized = true
        · simp only [step, shrink_bad (Or.inr (Or.inr (Or.inl ⟨k, hk, hs⟩)))]; exact ⟨h, by simp⟩
        · have hns : k.isSized = false := by simpa using hs
          by_cases hn : N_CAP < n
          · simp only [step, shrink_bad (Or.inr (Or.inr (Or.inr (Or.inl hn))))]; exact ⟨h, by simp⟩
          · by_cases hnc : c < n
            · simp only [step, shrink_bad (Or.inr (Or.inr (Or.inr (Or.inr ⟨c, hc, hnc⟩))))]; exact ⟨h, by simp⟩
            · obtain ⟨e, hi, _⟩ := shrink_ok (n := n) h hx hk hc hns (by omega) (by omega)
              simp only [step, e]
              exact ⟨hi, by simp⟩
  | query => exact ⟨h, by simp [step]⟩

/-- The invariant holds along every history, in every intermediate state. -/
theorem run_inv : ∀ (ops : List Op) {s : State}, Inv s →
    Inv (run s ops).1 ∧ ∀ e ∈ (run s ops).2, Inv e.1 ∧ e.2.2 = (step e.1 e.2.1).2
  | [], s, h => ⟨h, by simp [run]⟩
  | op :: ops, s, h => by
    have hs := (step_inv h op).1
    obtain ⟨ih1, ih2⟩ := run_inv ops hs
    simp only [run]
    refine ⟨ih1, ?_⟩
    intro e he
    simp only [List.mem_cons] at he
    rcases he with rfl | he
    · exact ⟨h, rfl⟩
    · exact ih2 e he

/-- A fresh, well-formed account satisfies the invariant. -/
theorem inv_mkState {base : Nat} {wr : Bool} {ks : List Kind} {cs : List Nat} {len : Nat}
    (hl : LayoutOK ks cs (base + DISC) (base + len)) (hsmall : len + MAX_INC ≤ 2147483647)
    (hbase : base + len + MAX_INC + MAX_INC ≤ 4611686018427387904) : Inv (mkState base wr ks cs len) := by
  refine ⟨⟨by simp [mkState], by simp [mkState], hsmall, hbase⟩, hl, by simp [mkState], ?_, ?_, by simp [mkState], ?_, ?_⟩
  · intro _; simp [mkState]
  · intro hx; simp [mkState] at hx
  · intro _; rfl
  · intro w hw; simp [mkState] at hw

end Unsized.Runtime
