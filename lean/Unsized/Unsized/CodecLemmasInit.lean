import Unsized.CodecLemmasEnc
/-!
# Initializers: `initBytes s a = encode s (denote s a)`, `initSize s a = size s (denote s a)`,
and the denoted value is valid.
-/
namespace Unsized
open Common

theorem leN_zero (w : Nat) : leN w 0 = zeros w := by
  induction w with
  | zero => rfl
  | succ w ih => simp [leN, zeros, List.replicate_succ] at *; exact ih

theorem zeros_wf (n : Nat) : BytesWF (zeros n) := BytesWF_replicate (by decide)

@[simp] theorem zeros_length (n : Nat) : (zeros n).length = n := by simp [zeros]

theorem zeros_take (a b : Nat) : (zeros (a + b)).take a = zeros a := by
  simp [zeros, List.take_replicate]

theorem zeros_drop (a b : Nat) : (zeros (a + b)).drop a = zeros b := by
  simp [zeros, List.drop_replicate]

theorem validList_zeros (fs : List Fixed) (ih : ∀ f ∈ fs, f.okF = true → f.valid (zeros f.size) = true)
    (hok : Fixed.okList fs = true) : Fixed.validList fs (zeros (Fixed.sizeList fs)) = true := by
  induction fs with
  | nil => rfl
  | cons f fs ihf =>
    simp only [Fixed.okList, Bool.and_eq_true] at hok
    simp only [Fixed.validList, Fixed.sizeList, zeros_take, zeros_drop, Bool.and_eq_true]
    exact ⟨ih f (by simp) hok.1, ihf (fun g hg => ih g (by simp [hg])) hok.2⟩

theorem valid_zeros (f : Fixed) : f.okF = true → f.valid (zeros f.size) = true := by
  induction f using Fixed.induct' with
  | pod n => intro _; rfl
  | bool => intro _; decide
  | cenum k =>
    intro h
    simp only [Fixed.okF, decide_eq_true_eq] at h
    simp [Fixed.valid, Fixed.size, zeros]; omega
  | record fs ih =>
    intro h
    simp only [Fixed.okF] at h
    simp only [Fixed.valid, Fixed.size]
    exact validList_zeros fs ih h

/-- The three facts about initializers, proved together by induction on the shape. -/
def InitP (s : Shape) : Prop :=
  ∀ a, initOk s a = true →
    initBytes s a = encode s (denote s a) ∧ initSize s a = size s (denote s a)
      ∧ (∀ top inEnum, Shape.okAux top inEnum s = true → valid s (denote s a) = true)

theorem initFixed_valid (f : Fixed) (a : Init) (h : initOkFixed f a = true) (hok : f.okF = true) :
    (initFixedBytes f a).length = f.size ∧ f.valid (initFixedBytes f a) = true
      ∧ BytesWF (initFixedBytes f a) := by
  cases a <;> simp [initOkFixed] at h
  · exact ⟨by simp [initFixedBytes], by simpa [initFixedBytes] using valid_zeros f hok, zeros_wf _⟩
  · exact ⟨by simpa [initFixedBytes] using h.1.1, by simpa [initFixedBytes] using h.1.2,
      by simpa [initFixedBytes] using h.2⟩

theorem initP_default_fields (fs : List Shape) (ih : ∀ f ∈ fs, InitP f) :
    initOkDefault fs = true →
      initDefaultFields fs = encodeFields fs (denoteDefault fs)
        ∧ initSizeDefault fs = sizeFields fs (denoteDefault fs)
        ∧ (Shape.okFields fs = true → validFields fs (denoteDefault fs) = true) := by
  induction fs with
  | nil => intro _; simp [initDefaultFields, encodeFields, denoteDefault, initSizeDefault, sizeFields, validFields]
  | cons f fs ihf =>
    intro h
    simp only [initOkDefault, Bool.and_eq_true] at h
    obtain ⟨h1, h2, h3⟩ := ih f (by simp) .default h.1
    obtain ⟨g1, g2, g3⟩ := ihf (fun x hx => ih x (by simp [hx])) h.2
    refine ⟨by simp [initDefaultFields, denoteDefault, encodeFields, h1, g1],
      by simp [initSizeDefault, denoteDefault, sizeFields, h2, g2], ?_⟩
    intro hok
    simp only [denoteDefault, validFields, Bool.and_eq_true]
    cases fs with
    | nil =>
      simp only [Shape.okFields] at hok
      exact ⟨h3 false false hok, by simp [denoteDefault, validFields]⟩
    | cons g gs =>
      simp only [Shape.okFields, Bool.and_eq_true] at hok
      exact ⟨h3 false false hok.1.1, g3 hok.2⟩

theorem initP_fields (fs : List Shape) (ih : ∀ f ∈ fs, InitP f) :
    ∀ is, initOkFields fs is = true →
      initFields fs is = encodeFields fs (denoteFields fs is)
        ∧ initSizeFields fs is = sizeFields fs (denoteFields fs is)
        ∧ (Shape.okFields fs = true → validFields fs (denoteFields fs is) = true) := by
  induction fs with
  | nil =>
    intro is h
    cases is with
    | nil => simp [initFields, encodeFields, denoteFields, initSizeFields, sizeFields, validFields]
    | cons _ _ => simp [initOkFields] at h
  | cons f fs ihf =>
    intro is h
    cases is with
    | nil => simp [initOkFields] at h
    | cons a as =>
      simp only [initOkFields, Bool.and_eq_true] at h
      obtain ⟨h1, h2, h3⟩ := ih f (by simp) a h.1
      obtain ⟨g1, g2, g3⟩ := ihf (fun x hx => ih x (by simp [hx])) as h.2
      refine ⟨by simp [initFields, denoteFields, encodeFields, h1, g1],
        by simp [initSizeFields, denoteFields, sizeFields, h2, g2], ?_⟩
      intro hok
      simp only [denoteFields, validFields, Bool.and_eq_true]
      cases fs with
      | nil =>
        simp only [Shape.okFields] at hok
        refine ⟨h3 false false hok, ?_⟩
        cases as with
        | nil => simp [denoteFields, validFields]
        | cons _ _ => simp [initOkFields] at h
      | cons g gs =>
        simp only [Shape.okFields, Bool.and_eq_true] at hok
        exact ⟨h3 false false hok.1.1, g3 hok.2⟩

theorem initP_variant (ps : List Shape) (ih : ∀ p ∈ ps, InitP p) :
    ∀ (ds : List Nat) (i : Nat) (a : Init), i < ds.length → initOkVariant ps i a = true →
      initVariant ds ps i a = encodeVariant ds ps i (denoteVariant ps i a)
        ∧ initSizeVariant ps i a = sizeVariant ps i (denoteVariant ps i a)
        ∧ (Shape.okPayloads ps = true → validVariant ps i (denoteVariant ps i a) = true) := by
  induction ps with
  | nil => intro ds i a _ h; simp [initOkVariant] at h
  | cons p ps ihp =>
    intro ds i a hi h
    cases ds with
    | nil => simp at hi
    | cons d ds =>
      cases i with
      | zero =>
        simp only [initOkVariant] at h
        obtain ⟨h1, h2, h3⟩ := ih p (by simp) a h
        refine ⟨by simp [initVariant, encodeVariant, denoteVariant, h1],
          by simp [initSizeVariant, sizeVariant, denoteVariant, h2], ?_⟩
        intro hok
        simp only [Shape.okPayloads, Bool.and_eq_true] at hok
        simpa [validVariant, denoteVariant] using h3 false true hok.1
      | succ i =>
        simp only [initOkVariant] at h
        obtain ⟨g1, g2, g3⟩ := ihp (fun x hx => ih x (by simp [hx])) ds i a (by simpa using hi) h
        refine ⟨by simp [initVariant, encodeVariant, denoteVariant, g1],
          by simp [initSizeVariant, sizeVariant, denoteVariant, g2], ?_⟩
        intro hok
        simp only [Shape.okPayloads, Bool.and_eq_true] at hok
        simpa [validVariant, denoteVariant] using g3 hok.2

end Unsized
