import Unsized.CodecLemmasEnc
/-!
# Initializers: `initBytes s a = encode s (denote s a)`, `initSize s a = size s (denote s a)`,
and the denoted value is valid.
-/
namespace Unsized
open Common

theorem leN_zero (w : Nat) : leN w 0 = zeros w := by
  induction w with
  | zero => rfl
  | succ w ih => simp [leN, zeros, List.replicate_succ] at *; exact ih

theorem zeros_wf (n : Nat) : BytesWF (zeros n) := BytesWF_replicate (by decide)

@[simp] theorem zeros_length (n : Nat) : (zeros n).length = n := by simp [zeros]

theorem zeros_take (a b : Nat) : (zeros (a + b)).take a = zeros a := by
  simp [zeros, List.take_replicate]

theorem zeros_drop (a b : Nat) : (zeros (a + b)).drop a = zeros b := by
  simp [zeros, List.drop_replicate]

theorem validList_zeros (fs : List Fixed) (ih : ∀ f ∈ fs, f.okF = true → f.valid (zeros f.size) = true)
    (hok : Fixed.okList fs = true) : Fixed.validList fs (zeros (Fixed.sizeList fs)) = true := by
  induction fs with
  | nil => rfl
  | cons f fs ihf =>
    simp only [Fixed.okList, Bool.and_eq_true] at hok
    simp only [Fixed.validList, Fixed.sizeList, zeros_take, zeros_drop, Bool.and_eq_true]
    exact ⟨ih f (by simp) hok.1.1, ihf (fun g hg => ih g (by simp [hg])) hok.2⟩

theorem valid_zeros (f : Fixed) : f.okF = true → f.valid (zeros f.size) = true := by
  induction f using Fixed.induct' with
  | pod n => intro _; rfl
  | bool => intro _; decide
  | cenum k =>
    intro h
    simp only [Fixed.okF, decide_eq_true_eq] at h
    simp [Fixed.valid, Fixed.size, zeros]; omega
  | record fs ih =>
    intro h
    simp only [Fixed.okF] at h
    simp only [Fixed.valid, Fixed.size]
    exact validList_zeros fs ih h
  | podd d => intro _; rfl

theorem valid_dflt (f : Fixed) (h : f.okF = true) : f.valid f.dflt = true := by
  cases f with
  | podd d => rfl
  | pod n => exact valid_zeros _ h
  | bool => exact valid_zeros _ h
  | cenum k => exact valid_zeros _ h
  | record fs => exact valid_zeros _ h

theorem dflt_wf (f : Fixed) (h : f.okF = true) : BytesWF f.dflt := by
  cases f with
  | podd d => simpa [Fixed.okF] using h
  | pod n => exact zeros_wf _
  | bool => exact zeros_wf _
  | cenum k => exact zeros_wf _
  | record fs => exact zeros_wf _

/-- The three facts about initializers, proved together by induction on the shape. -/
def InitP (s : Shape) : Prop :=
  ∀ a, initOk s a = true →
    initBytes s a = encode s (denote s a) ∧ initSize s a = size s (denote s a)
      ∧ (∀ top inEnum, Shape.okAux top inEnum s = true → valid s (denote s a) = true)

theorem initFixed_valid (f : Fixed) (a : Init) (h : initOkFixed f a = true) (hok : f.okF = true) :
    (initFixedBytes f a).length = f.size ∧ f.valid (initFixedBytes f a) = true
      ∧ BytesWF (initFixedBytes f a) := by
  cases a <;> simp [initOkFixed] at h
  · exact ⟨by simp [initFixedBytes, Fixed.dflt_length], by simpa [initFixedBytes] using valid_dflt f hok,
      by simpa [initFixedBytes] using dflt_wf f hok⟩
  · exact ⟨by simpa [initFixedBytes] using h.1.1, by simpa [initFixedBytes] using h.1.2,
      by simpa [initFixedBytes] using h.2⟩

theorem initP_default_fields (fs : List Shape) (ih : ∀ f ∈ fs, InitP f) :
    initOkDefault fs = true →
      initDefaultFields fs = encodeFields fs (denoteDefault fs)
        ∧ initSizeDefault fs = sizeFields fs (denoteDefault fs)
        ∧ (Shape.okFields fs = true → validFields fs (denoteDefault fs) = true) := by
  induction fs with
  | nil => intro _; simp [initDefaultFields, encodeFields, denoteDefault, initSizeDefault, sizeFields, validFields]
  | cons f fs ihf =>
    intro h
    simp only [initOkDefault, Bool.and_eq_true] at h
    obtain ⟨h1, h2, h3⟩ := ih f (by simp) .default h.1
    obtain ⟨g1, g2, g3⟩ := ihf (fun x hx => ih x (by simp [hx])) h.2
    refine ⟨by simp [initDefaultFields, denoteDefault, encodeFields, h1, g1],
      by simp [initSizeDefault, denoteDefault, sizeFields, h2, g2], ?_⟩
    intro hok
    simp only [denoteDefault, validFields, Bool.and_eq_true]
    cases fs with
    | nil =>
      simp only [Shape.okFields] at hok
      exact ⟨h3 false false hok, by simp [denoteDefault, validFields]⟩
    | cons g gs =>
      simp only [Shape.okFields, Bool.and_eq_true] at hok
      exact ⟨h3 false false hok.1.1, g3 hok.2⟩

theorem initP_fields (fs : List Shape) (ih : ∀ f ∈ fs, InitP f) :
    ∀ is, initOkFields fs is = true →
      initFields fs is = encodeFields fs (denoteFields fs is)
        ∧ initSizeFields fs is = sizeFields fs (denoteFields fs is)
        ∧ (Shape.okFields fs = true → validFields fs (denoteFields fs is) = true) := by
  induction fs with
  | nil =>
    intro is h
    cases is with
    | nil => simp [initFields, encodeFields, denoteFields, initSizeFields, sizeFields, validFields]
    | cons _ _ => simp [initOkFields] at h
  | cons f fs ihf =>
    intro is h
    cases is with
    | nil => simp [initOkFields] at h
    | cons a as =>
      simp only [initOkFields, Bool.and_eq_true] at h
      obtain ⟨h1, h2, h3⟩ := ih f (by simp) a h.1
      obtain ⟨g1, g2, g3⟩ := ihf (fun x hx => ih x (by simp [hx])) as h.2
      refine ⟨by simp [initFields, denoteFields, encodeFields, h1, g1],
        by simp [initSizeFields, denoteFields, sizeFields, h2, g2], ?_⟩
      intro hok
      simp only [denoteFields, validFields, Bool.and_eq_true]
      cases fs with
      | nil =>
        simp only [Shape.okFields] at hok
        refine ⟨h3 false false hok, ?_⟩
        cases as with
        | nil => simp [denoteFields, validFields]
        | cons _ _ => simp [initOkFields] at h
      | cons g gs =>
        simp only [Shape.okFields, Bool.and_eq_true] at hok
        exact ⟨h3 false false hok.1.1, g3 hok.2⟩

theorem initP_variant (ps : List Shape) (ih : ∀ p ∈ ps, InitP p) :
    ∀ (ds : List Nat) (i : Nat) (a : Init), i < ds.length → initOkVariant ps i a = true →
      initVariant ds ps i a = encodeVariant ds ps i (denoteVariant ps i a)
        ∧ initSizeVariant ps i a = sizeVariant ps i (denoteVariant ps i a)
        ∧ (Shape.okPayloads ps = true → validVariant ps i (denoteVariant ps i a) = true) := by
  induction ps with
  | nil => intro ds i a _ h; simp [initOkVariant] at h
  | cons p ps ihp =>
    intro ds i a hi h
    cases ds with
    | nil => simp at hi
    | cons d ds =>
      cases i with
      | zero =>
        simp only [initOkVariant] at h
        obtain ⟨h1, h2, h3⟩ := ih p (by simp) a h
        refine ⟨by simp [initVariant, encodeVariant, denoteVariant, h1],
          by simp [initSizeVariant, sizeVariant, denoteVariant, h2], ?_⟩
        intro hok
        simp only [Shape.okPayloads, Bool.and_eq_true] at hok
        simpa [validVariant, denoteVariant] using h3 false true hok.1
      | succ i =>
        simp only [initOkVariant] at h
        obtain ⟨g1, g2, g3⟩ := ihp (fun x hx => ih x (by simp [hx])) ds i a (by simpa using hi) h
        refine ⟨by simp [initVariant, encodeVariant, denoteVariant, g1],
          by simp [initSizeVariant, sizeVariant, denoteVariant, g2], ?_⟩
        intro hok
        simp only [Shape.okPayloads, Bool.and_eq_true] at hok
        simpa [validVariant, denoteVariant] using g3 hok.2

end Unsized

namespace Unsized
open Common

theorem initP_all (s : Shape) : InitP s := by
  induction s using Shape.induct' with
  | fixed f =>
    intro a h
    simp only [initOk] at h
    refine ⟨by simp [initBytes, denote, encode], by simp [initSize, size], ?_⟩
    intro top inEnum hok
    simp only [Shape.okAux, Bool.and_eq_true] at hok
    obtain ⟨h1, h2, h3⟩ := initFixed_valid f a h hok.1
    simp [denote, valid, h1, h2, h3]
  | list e lw =>
    intro a h
    cases a <;> simp [initOk] at h
    · exact ⟨by simp [initBytes, denote, encode, leN_zero], by simp [initSize, denote, size],
        fun _ _ _ => by simp [denote, valid]⟩
    · rename_i es
      refine ⟨by simp [initBytes, denote, encode], by simp [initSize, denote, size], ?_⟩
      intro _ _ _
      simp only [denote, valid, List.all_eq_true, Bool.and_eq_true, beq_iff_eq, decide_eq_true_eq]
      intro x hx; exact h x hx
  | set e lw =>
    intro a h
    cases a <;> simp [initOk] at h
    exact ⟨by simp [initBytes, denote, encode, leN_zero], by simp [initSize, denote, size],
      fun _ _ _ => by simp [denote, valid, strictKeys]⟩
  | map kw v lw =>
    intro a h
    cases a <;> simp [initOk] at h
    exact ⟨by simp [initBytes, denote, encode, leN_zero], by simp [initSize, denote, size],
      fun _ _ _ => by simp [denote, valid, strictKeys]⟩
  | str lw =>
    intro a h
    cases a <;> simp [initOk] at h
    exact ⟨by simp [initBytes, denote, encode, leN_zero], by simp [initSize, denote, size],
      fun _ _ _ => by simp [denote, valid, utf8Valid, utf8Go]⟩
  | rem =>
    intro a h
    cases a <;> simp [initOk] at h
    · exact ⟨by simp [initBytes, denote, encode], by simp [initSize, denote, size],
        fun _ _ _ => by simp [denote, valid]⟩
    · rename_i es
      have hfl : es.flatten.length = es.length := by
        rw [flatten_length 1 es (fun x hx => (h x hx).1)]; omega
      refine ⟨by simp [initBytes, denote, encode], by simp [initSize, denote, size, hfl], ?_⟩
      intro _ _ _
      simp only [denote, valid, decide_eq_true_eq]
      intro b hb
      simp only [List.mem_flatten] at hb
      obtain ⟨x, hx, hbx⟩ := hb
      exact (h x hx).2 b hbx
  | ulist e ih =>
    intro a h
    cases a <;> simp [initOk] at h
    · exact ⟨by simp only [initBytes, denote, encode, List.map_nil, List.sum_nil, List.length_nil,
          offsets, List.flatten_nil, List.append_nil]; rfl,
        by simp [initSize, denote, size], fun _ _ _ => by simp [denote, valid]⟩
    · rename_i is
      have hb : is.map (initBytes e) = (is.map (denote e)).map (encode e) := by
        rw [List.map_map]; apply List.map_congr_left; intro x hx; exact (ih x (h x hx)).1
      have hs : is.map (initSize e) = (is.map (denote e)).map (size e) := by
        rw [List.map_map]; apply List.map_congr_left; intro x hx; exact (ih x (h x hx)).2.1
      refine ⟨by simp [initBytes, denote, encode, hb], by simp [initSize, denote, size, hs]; omega, ?_⟩
      intro top inEnum hok
      simp only [Shape.okAux, Bool.and_eq_true] at hok
      simp only [denote, valid, List.all_eq_true, List.mem_map]
      rintro v ⟨x, hx, rfl⟩
      exact (ih x (h x hx)).2.2 false false hok.1
  | umap kw e ih =>
    intro a h
    cases a <;> simp [initOk] at h
    exact ⟨by simp only [initBytes, denote, encode, List.map_nil, List.sum_nil, List.length_nil,
        offsets, List.zipWith_nil_right, List.flatten_nil, List.append_nil]; rfl,
      by simp [initSize, denote, size], fun _ _ _ => by simp [denote, valid, strictKeys]⟩
  | struct sized fs ih =>
    intro a h
    cases a <;> simp [initOk] at h
    · obtain ⟨g1, g2, g3⟩ := initP_default_fields fs ih h
      refine ⟨by simp [initBytes, denote, encode, g1], by simp [initSize, denote, size, g2], ?_⟩
      intro top inEnum hok
      simp only [Shape.okAux, Bool.and_eq_true] at hok
      have hz := valid_zeros (.record sized) (by simpa [Fixed.okF] using hok.1.1.1)
      simp only [Fixed.valid, Fixed.size] at hz
      simp [denote, valid, hz, g3 hok.2, zeros_wf]
    · rename_i sz is
      obtain ⟨g1, g2, g3⟩ := initP_fields fs ih is h.2
      refine ⟨by simp [initBytes, denote, encode, g1], by simp [initSize, denote, size, g2], ?_⟩
      intro top inEnum hok
      simp only [Shape.okAux, Bool.and_eq_true] at hok
      by_cases hemp : sized = []
      · subst hemp
        have hsz : initFixedBytes (.record []) sz = [] := by
          cases sz <;> simp at h <;> simp [initFixedBytes, zeros, Fixed.size, Fixed.sizeList]
        simp [denote, valid, hsz, Fixed.sizeList, Fixed.validList, g3 hok.2]
      · have hfx := initFixed_valid (.record sized) sz (by simpa [hemp] using h.1)
          (by simpa [Fixed.okF] using hok.1.1.1)
        simp only [Fixed.valid, Fixed.size] at hfx
        simp [denote, valid, hfx.1, hfx.2.1, hfx.2.2, g3 hok.2]
  | enum ds ps ih =>
    intro a h
    cases a with
    | default =>
      cases ds with
      | nil => simp [initOk] at h
      | cons d ds =>
        cases ps with
        | nil => simp [initOk] at h
        | cons p ps =>
          simp only [initOk] at h
          obtain ⟨h1, h2, h3⟩ := ih p (by simp) .default h
          refine ⟨by simp [initBytes, denote, encode, encodeVariant, h1],
            by simp [initSize, denote, size, sizeVariant, h2]; omega, ?_⟩
          intro top inEnum hok
          simp only [Shape.okAux, Shape.okPayloads, Bool.and_eq_true] at hok
          simp [denote, valid, validVariant, h3 false true hok.2.1]
    | variant i arg =>
      simp only [initOk, Bool.and_eq_true, decide_eq_true_eq] at h
      obtain ⟨g1, g2, g3⟩ := initP_variant ps ih ds i arg h.1 h.2
      refine ⟨by simp [initBytes, denote, encode, g1], by simp [initSize, denote, size, g2]; omega, ?_⟩
      intro top inEnum hok
      simp only [Shape.okAux, Bool.and_eq_true] at hok
      simp [denote, valid, h.1, g3 hok.2]
    | owned l => simp [initOk] at h
    | array es => simp [initOk] at h
    | uarray is => simp [initOk] at h
    | fields sz is => simp [initOk] at h
  | unit =>
    intro a h
    cases a <;> simp [initOk] at h
    exact ⟨by simp [initBytes, encode], by simp [initSize, size], fun _ _ _ => by simp [denote, valid]⟩
  | disc d inner ih =>
    intro a h
    have h' : initOk inner a = true := by cases a <;> simpa [initOk] using h
    obtain ⟨h1, h2, h3⟩ := ih a h'
    have e1 : ∀ v, encode (.disc d inner) v = d ++ encode inner v := by intro v; cases v <;> rfl
    have e2 : ∀ v, size (.disc d inner) v = size inner v + d.length := by intro v; cases v <;> rfl
    have e3 : ∀ v, valid (.disc d inner) v = valid inner v := by intro v; cases v <;> rfl
    have i1 : initBytes (.disc d inner) a = d ++ initBytes inner a := by cases a <;> rfl
    have i2 : initSize (.disc d inner) a = initSize inner a + d.length := by cases a <;> rfl
    have i3 : denote (.disc d inner) a = denote inner a := by cases a <;> rfl
    refine ⟨by rw [i1, i3, e1, h1], by rw [i2, i3, e2, h2], ?_⟩
    intro top inEnum hok
    simp only [Shape.okAux, Bool.and_eq_true] at hok
    rw [i3, e3]; exact h3 false false hok.2

end Unsized
