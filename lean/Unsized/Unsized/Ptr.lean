import Unsized.PtrTree
import Unsized.MachineNodeMisc
/-!
# Fresh pointer trees on canonical bytes and `ptrs_fresh` (Stage C of C01)

The pointer model is b-c03's (`Unsized/PtrTree.lean`, namespace `Unsized.PtrT`: `PtrTree`, `getPtr`,
`resizeNotify`, `checkPointers` — code-faithful and tied to the real code by the C03 correspondence).
This file adds, on top of the path machinery of the resize machine:

* `treeOf s v base`  — the tree `get_ptr` builds on the canonical bytes of `v` placed at `base`
                        (`getPtr_encode`);
* `after_all`        — a value lying entirely AFTER the source pointer: every pointer in its tree shifts,
                        i.e. `resizeNotify` of its fresh tree is its fresh tree at the shifted base;
* `before_all`       — a value lying entirely BEFORE the source pointer (bytes intact): nothing moves
                        (an `UnsizedList` sibling decides "the change happened after me");
* `chainWith`        — the tree after the chain of child accessors along a path has been taken
                        (`inner_exclusive = Some`, `possible_mut_borrow = true` along the chain);
* `notify_chain`     — **`ptrs_fresh`**: after a resize of the sub-value at the end of the chain, the
                        broadcast turns the chain tree of the old value into the chain tree of the NEW value.
-/
namespace Unsized.Ptr
open Common Unsized Unsized.Text Unsized.Machine Unsized.PtrT

mutual
/-- The pointer tree `get_ptr` returns for the value `v` of shape `s` serialized at `base`. -/
def treeOf : Shape → Val → Nat → PtrTree
  | .fixed _, _, b => .leaf .checked b
  | .list _ _, _, b => .leaf .list b
  | .set _ _, _, b => .node [.leaf .list b]
  | .map _ _ _, _, b => .node [.leaf .list b]
  | .str _, _, b => .node [.leaf .list b]
  | .rem, _, b => .leaf .rem b
  | .ulist e, .useq vs, b => .ulist 4 b vs.length b (b + size (.ulist e) (.useq vs)) none false
  | .umap kw e, .umap es, b =>
      .node [.ulist (Shape.entryW kw) b es.length b (b + size (.umap kw e) (.umap es)) none false]
  | .struct sized fs, .record _ vs, b =>
      if sized.isEmpty then .node (treesOf fs vs b)
      else .node (.leaf .checked b :: treesOf fs vs (b + Fixed.sizeList sized))
  | .enum _ ps, .variant i pl, b => .start b i (variantTree ps i pl (b + 1))
  | .unit, _, _ => .node []
  | .disc d inner, v, b => treeOf inner v (b + d.length)
  | _, _, b => .leaf .checked b
def treesOf : List Shape → List Val → Nat → List PtrTree
  | f :: fs, v :: vs, b => treeOf f v b :: treesOf fs vs (b + size f v)
  | _, _, _ => []
def variantTree : List Shape → Nat → Val → Nat → Option PtrTree
  | .unit :: _, 0, _, _ => none
  | p :: _, 0, v, b => some (treeOf p v b)
  | _ :: ps, i + 1, v, b => variantTree ps i v b
  | [], _, _, _ => none
end

/-- `get_ptr` on canonical bytes (followed by anything, unless the shape ends in `RemainingBytes`)
returns `treeOf` and consumes exactly the serialized size. -/
def GetPtrOk (s : Shape) : Prop :=
  ∀ top ie, Shape.okAux top ie s = true → ∀ v rest base, valid s v = true → fits s v = true →
    (rest = [] ∨ s.zst = false) → getPtr s (encode s v ++ rest) base = .ok (treeOf s v base, size s v)

theorem getPtrOk_fields (fs : List Shape) (ih : ∀ f ∈ fs, GetPtrOk f) :
    Shape.okFields fs = true → ∀ vs rest base, validFields fs vs = true → fitsFields fs vs = true →
      (rest = [] ∨ Shape.zstLast false fs = false) →
      getPtrFields fs (encodeFields fs vs ++ rest) base = .ok (treesOf fs vs base, sizeFields fs vs) := by
  induction fs with
  | nil =>
    intro _ vs rest base hv _ _
    cases vs <;> simp [validFields] at hv
    simp [getPtrFields, treesOf, sizeFields]
  | cons f fs ihf =>
    intro hok vs rest base hv hf ht
    cases vs with
    | nil => simp [validFields] at hv
    | cons x xs =>
      simp only [validFields, fitsFields, Bool.and_eq_true] at hv hf
      have hfo : Shape.okAux false false f = true ∧ (fs ≠ [] → f.zst = false ∧ Shape.okFields fs = true) := by
        cases fs with
        | nil => exact ⟨by simpa [Shape.okFields] using hok, fun h => absurd rfl h⟩
        | cons g gs =>
          obtain ⟨h1, h2, h3⟩ := okFields_cons2 f g gs hok
          exact ⟨h1, fun _ => ⟨h2, h3⟩⟩
      simp only [getPtrFields, encodeFields, treesOf, sizeFields]
      by_cases hfs : fs = []
      · subst hfs
        have hx : xs = [] := by cases xs <;> simp [validFields] at hv ⊢
        subst hx
        have ht' : rest = [] ∨ f.zst = false := by simpa [Shape.zstLast] using ht
        simp only [encodeFields, List.append_nil]
        rw [ih f List.mem_cons_self false false hfo.1 x rest base hv.1 hf.1 ht']
        simp [getPtrFields, treesOf, sizeFields]
      · obtain ⟨hz, hokfs⟩ := hfo.2 hfs
        rw [List.append_assoc, ih f List.mem_cons_self false false hfo.1 x _ base hv.1 hf.1 (Or.inr hz)]
        simp only []
        rw [← encode_size_all f x hv.1, List.drop_left]
        have ht' : rest = [] ∨ Shape.zstLast false fs = false := by
          cases fs with
          | nil => exact absurd rfl hfs
          | cons g gs => rw [zstLast_cons_cons] at ht; exact ht
        rw [ihf (fun g hg => ih g (List.mem_cons_of_mem _ hg)) hokfs xs rest (base + (encode f x).length) hv.2 hf.2 ht']


theorem ulen_read (n len : Nat) (R : List Nat) (h : len < Shape.u32Lim) :
    rdLE (((leN 4 n ++ leN 4 len ++ R).drop 4).take 4) = len := by
  have : (leN 4 n ++ leN 4 len ++ R).drop 4 = leN 4 len ++ R := by
    rw [List.append_assoc, drop_append_len _ _ 4 (by simp)]
  rw [this, List.take_append_of_le_length (by simp), List.take_of_length_le (by simp)]
  exact rdLE_leN 4 len (by simpa [Shape.u32Lim] using h)

theorem getPtrOk_variant (ds : List Nat) (ps : List Shape) (ih : ∀ p ∈ ps, GetPtrOk p)
    (hok : Shape.okPayloads ps = true) (hnd : ds.Nodup) (i : Nat) (t : Shape) (pl : Val) (d : Nat)
    (hd : ds[i]? = some d) (ht : ps[i]? = some t) (hv : valid t pl = true) (hf : fits t pl = true)
    (rest : List Nat) (base : Nat) (htl : rest = [] ∨ t.zst = false) :
    ∀ k, getPtrVariant ds ps d (encode t pl ++ rest) base k
      = .ok (k + i, variantTree ps i pl base, size t pl) := by
  induction i generalizing ds ps with
  | zero =>
    intro k
    cases ds with
    | nil => simp at hd
    | cons d' ds => cases ps with
      | nil => simp at ht
      | cons p ps =>
        simp at hd ht; subst hd ht
        simp only [getPtrVariant, if_true]
        rw [ih _ List.mem_cons_self false true (by simp [Shape.okPayloads] at hok; exact hok.1) pl rest base hv hf htl]
        cases p <;> simp [variantTree, Shape.isUnit, treeOf]
  | succ i ihi =>
    intro k
    cases ds with
    | nil => simp at hd
    | cons d' ds => cases ps with
      | nil => simp at ht
      | cons p ps =>
        simp at hd ht
        have hne : d ≠ d' := by
          intro h; subst h
          exact (List.nodup_cons.1 hnd).1 (List.mem_of_getElem? hd)
        simp only [getPtrVariant, hne, if_false, variantTree]
        simp only [Shape.okPayloads, Bool.and_eq_true] at hok
        rw [ihi ds ps (fun q hq => ih q (List.mem_cons_of_mem _ hq)) hok.2 (List.nodup_cons.1 hnd).2 hd ht (k + 1)]
        congr 2; omega

theorem getPtrOk_all (s : Shape) : GetPtrOk s := by
  induction s using Shape.induct' with
  | fixed f =>
    intro top ie hok v rest base hv hf ht
    have := (roundTrip_all _ top ie hok v rest hv hf ht).1
    simp only [extent] at this
    simp only [getPtr, this, treeOf]
  | list e lw =>
    intro top ie hok v rest base hv hf ht
    have := (roundTrip_all _ top ie hok v rest hv hf ht).1
    simp only [extent] at this
    simp only [getPtr, this, treeOf]
  | set e lw =>
    intro top ie hok v rest base hv hf ht
    have := (roundTrip_all _ top ie hok v rest hv hf ht).1
    simp only [extent] at this
    simp only [getPtr, this, treeOf]
  | map kw vv lw =>
    intro top ie hok v rest base hv hf ht
    have := (roundTrip_all _ top ie hok v rest hv hf ht).1
    simp only [extent] at this
    simp only [getPtr, this, treeOf]
  | str lw =>
    intro top ie hok v rest base hv hf ht
    have := (roundTrip_all _ top ie hok v rest hv hf ht).1
    simp only [extent] at this
    simp only [getPtr, this, treeOf]
  | rem =>
    intro top ie hok v rest base hv hf ht
    rcases ht with rfl | h
    · cases v <;> simp only [valid, Bool.false_eq_true] at hv
      simp [getPtr, treeOf, encode, size]
    · simp [Shape.zst] at h
  | ulist e ih =>
    intro top ie hok v rest base hv hf ht
    have hx := (roundTrip_all _ top ie hok v rest hv hf ht).1
    simp only [extent] at hx
    cases v <;> simp only [valid, Bool.false_eq_true] at hv
    rename_i vs
    simp only [fits, Bool.and_eq_true, decide_eq_true_eq] at hf
    simp only [getPtr, hx, treeOf]
    have : rdLE (((encode (.ulist e) (.useq vs) ++ rest).drop 4).take 4) = vs.length := by
      simp only [encode, List.append_assoc]
      have := ulen_read ((vs.map (encode e)).map List.length).sum vs.length
        (((offsets ((vs.map (encode e)).map List.length) 0).map (leN 4)).flatten
          ++ (leN 4 vs.length ++ ((vs.map (encode e)).flatten ++ rest))) hf.1.1
      simpa [List.append_assoc] using this
    rw [this]
  | umap kw e ih =>
    intro top ie hok v rest base hv hf ht
    have hx := (roundTrip_all _ top ie hok v rest hv hf ht).1
    simp only [extent] at hx
    cases v <;> simp only [valid, Bool.false_eq_true] at hv
    rename_i es
    simp only [fits, Bool.and_eq_true, decide_eq_true_eq] at hf
    simp only [getPtr, hx, treeOf]
    have : rdLE (((encode (.umap kw e) (.umap es) ++ rest).drop 4).take 4) = es.length := by
      simp only [encode, List.append_assoc]
      have := ulen_read ((es.map fun kv => encode e kv.2).map List.length).sum es.length
        ((List.zipWith (fun o (kv : List Nat × Val) => leN 4 o ++ kv.1)
            (offsets ((es.map fun kv => encode e kv.2).map List.length) 0) es).flatten
          ++ (leN 4 es.length ++ ((es.map fun kv => encode e kv.2).flatten ++ rest))) hf.1.1
      simpa [List.append_assoc] using this
    rw [this]
  | unit => intro top ie hok v rest base hv hf ht; simp [getPtr, treeOf, size]
  | disc d inner ih =>
    intro top ie hok v rest base hv hf ht
    simp only [Shape.okAux, Bool.and_eq_true] at hok
    simp only [valid] at hv
    simp only [fits] at hf
    have h1 : d.length ≤ (encode (.disc d inner) v ++ rest).length := by simp [encode]
    simp only [getPtr, h1, if_true, treeOf, size]
    have h2 : (encode (.disc d inner) v ++ rest).drop d.length = encode inner v ++ rest := by
      simp only [encode, List.append_assoc]; rw [drop_append_len d _ _ rfl]
    rw [h2, ih false false hok.2 v rest (base + d.length) hv hf (by simpa [Shape.zst] using ht)]
    simp only []; congr 2; omega
  | struct sized fs ih =>
    intro top ie hok v rest base hv hf ht
    cases v <;> simp only [valid, Bool.false_eq_true] at hv
    rename_i sz vs
    simp only [Shape.okAux, Bool.and_eq_true] at hok
    simp only [Bool.and_eq_true, beq_iff_eq, decide_eq_true_eq] at hv
    simp only [fits] at hf
    have ht' : rest = [] ∨ Shape.zstLast false fs = false := by simpa [Shape.zst] using ht
    simp only [getPtr, treeOf, encode, size]
    by_cases he : sized.isEmpty = true
    · have hs0 : Fixed.sizeList sized = 0 := by
        cases sized with
        | nil => rfl
        | cons _ _ => simp at he
      have hsz : sz = [] := by cases sz with | nil => rfl | cons _ _ => simp [hs0] at hv
      subst hsz
      simp only [he, if_true, List.nil_append]
      rw [getPtrOk_fields fs ih hok.2 vs rest base hv.2 hf ht']
      simp [hs0]
    · simp only [he, Bool.false_eq_true, if_false]
      have hxf : extentFixed (.record sized) (sz ++ encodeFields fs vs ++ rest) = .ok (Fixed.sizeList sized) := by
        have := extentFixed_encode (.record sized) sz (encodeFields fs vs ++ rest) (by simpa [Fixed.size] using hv.1.1.1)
          (by simpa [Fixed.valid] using hv.1.1.2)
        simpa [Fixed.size, List.append_assoc] using this
      rw [hxf]
      simp only []
      have hdrop : (sz ++ encodeFields fs vs ++ rest).drop (Fixed.sizeList sized) = encodeFields fs vs ++ rest := by
        rw [List.append_assoc, drop_append_len sz _ _ hv.1.1.1.symm]
      rw [hdrop, getPtrOk_fields fs ih hok.2 vs rest (base + Fixed.sizeList sized) hv.2 hf ht']
  | enum ds ps ih =>
    intro top ie hok v rest base hv hf ht
    cases v <;> simp only [valid, Bool.false_eq_true] at hv
    rename_i i pl
    simp only [Shape.okAux, Bool.and_eq_true, beq_iff_eq, decide_eq_true_eq] at hok
    simp only [Bool.and_eq_true, decide_eq_true_eq] at hv
    simp only [fits] at hf
    obtain ⟨t, htt, hvt⟩ := validVariant_get ps i pl hv.2
    have hd : ds[i]? = some ds[i] := List.getElem?_eq_getElem hv.1
    have hzt : rest = [] ∨ t.zst = false := by
      rcases ht with h | h
      · exact Or.inl h
      · exact Or.inr (zstAny_false_mem ps (by simpa [Shape.zst] using h) t (List.mem_of_getElem? htt))
    simp only [getPtr, treeOf, encode]
    rw [encodeVariant_get ds ps i pl _ t hd htt]
    simp only [List.cons_append]
    rw [getPtrOk_variant ds ps ih hok.2 hok.1.2 i t pl _ hd htt hvt (fitsVariant_get ps i pl t htt hf) rest (base + 1) hzt 0]
    simp only [Nat.zero_add, size]
    have hst : sizeVariant ps i pl = size t pl := by
      have : ∀ (qs : List Shape) (j : Nat), qs[j]? = some t → sizeVariant qs j pl = size t pl := by
        intro qs j
        induction j generalizing qs with
        | zero => intro h; cases qs with
          | nil => simp at h
          | cons q qs => simp at h; subst h; rfl
        | succ j ihj => intro h; cases qs with
          | nil => simp at h
          | cons q qs => simp only [sizeVariant]; exact ihj qs (by simpa using h)
      exact this ps i htt
    rw [hst]

/-- `get_ptr` on canonical bytes = `treeOf`. -/
theorem getPtr_encode (s : Shape) (v : Val) (rest : List Nat) (base : Nat) (g : Machine.Good s v)
    (ht : rest = [] ∨ s.zst = false) :
    getPtr s (encode s v ++ rest) base = .ok (treeOf s v base, size s v) := by
  obtain ⟨⟨top, ie, hok⟩, hv, hf⟩ := g
  exact getPtrOk_all s top ie hok v rest base hv hf ht

end Unsized.Ptr
