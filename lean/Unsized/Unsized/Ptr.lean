import Unsized.MachineResize
/-!
# Pointer trees of the unsized-type system (Stage C)

`PtrTree` mirrors the Rust `Ptr` types one-for-one:

* `leaf addr meta rem`   — `ListPtr` (fat pointer: `meta` = byte length of the elements; also the `list`
                            field of `Set`/`Map`/`UnsizedString`), `CheckedPtr` (`meta` = `size_of::<T>()`),
                            `RemainingBytesPtr` (`rem = true`, `meta` = slice length)
* `ul addr len cw lo hi inner mayBorrow` — `UnsizedListPtr { list_ptr (addr + len metadata), range: lo..hi,
                            inner_exclusive, possible_mut_borrow }` (`cw = size_of::<C>()`)
* `node kids`            — the generated struct `Ptr` (sized part first, if any)
* `start addr variant inner` — `StartPointer<Enum>` (`inner = none` for a unit variant)

`treeOf s v base` is the tree `get_ptr` builds on the canonical bytes of `v` placed at `base`
(`getPtr_encode` relates it to the byte-level `getPtr`); `chainOf` is the tree after the accessors along
a path have been taken (`index_exclusive` fills `inner_exclusive` and sets `possible_mut_borrow`).
`notifyP` is the pointer half of `resize_notification` (the byte half is `Machine.notify`).
-/
namespace Unsized.Ptr
open Common Unsized Unsized.Text Unsized.Machine

inductive PtrTree where
  | leaf (addr mlen : Nat) (rem : Bool)
  | ul (addr len cw lo hi : Nat) (inner : Option PtrTree) (mayBorrow : Bool)
  | node (kids : List PtrTree)
  | start (addr variant : Nat) (inner : Option PtrTree)
  deriving Repr, Inhabited

/-! ## `get_ptr` on the canonical bytes of a value -/

mutual
/-- The pointer tree `get_ptr` returns for the value `v` of shape `s` serialized at `base`. -/
def treeOf : Shape → Val → Nat → PtrTree
  | .fixed f, _, b => .leaf b f.size false
  | .list e _, .seq es, b => .leaf b (e.size * es.length) false
  | .set e _, .seq es, b => .leaf b (e.size * es.length) false
  | .map kw f _, .seq es, b => .leaf b ((kw + f.size) * es.length) false
  | .str _, .bytes l, b => .leaf b (1 * l.length) false
  | .rem, .bytes l, b => .leaf b l.length true
  | .ulist e, .useq vs, b => .ul b vs.length 4 b (b + size (.ulist e) (.useq vs)) none false
  | .umap kw e, .umap es, b =>
      .ul b es.length (Shape.entryW kw) b (b + size (.umap kw e) (.umap es)) none false
  | .struct sized fs, .record _ vs, b =>
      if sized.isEmpty then .node (treesOf fs vs b)
      else .node (.leaf b (Fixed.sizeList sized) false :: treesOf fs vs (b + Fixed.sizeList sized))
  | .enum _ ps, .variant i pl, b => .start b i (variantTree ps i pl (b + 1))
  | _, _, b => .leaf b 0 false
def treesOf : List Shape → List Val → Nat → List PtrTree
  | f :: fs, v :: vs, b => treeOf f v b :: treesOf fs vs (b + size f v)
  | _, _, _ => []
def variantTree : List Shape → Nat → Val → Nat → Option PtrTree
  | .unit :: _, 0, _, _ => none
  | p :: _, 0, v, b => some (treeOf p v b)
  | _ :: ps, i + 1, v, b => variantTree ps i v b
  | [], _, _, _ => none
end

/-! ## `resize_notification` on pointers -/

mutual
/-- Pointer half of `UnsizedType::resize_notification(self_mut, source_ptr, change)`; `bs` = the bytes at
the time of the broadcast (after the move, before any header rewrite). -/
def notifyP : PtrTree → List Nat → Nat → Bool → Nat → Except Err PtrTree
  | .leaf a m rem, _, src, neg, amt =>
    if src < a then .ok (.leaf (applyDelta neg amt a) m rem)
    else if rem && decide (a < src) then .error .parse   -- `UnsizedUnexpected`: resize after RemainingBytes
    else .ok (.leaf a m rem)
  | .ul a len cw lo hi inner mb, bs, src, neg, amt =>
    if src < a then
      -- the change happened before me; a (possibly stale) inner pointer lives inside me and moves along
      match notifyPo inner bs src neg amt with
      | .error e => .error e
      | .ok inner' =>
        .ok (.ul (applyDelta neg amt a) len cw (applyDelta neg amt lo) (applyDelta neg amt hi) inner' mb)
    else if src = a then .ok (.ul a len cw lo (applyDelta neg amt hi) inner mb)
    else if src < a + (12 + len * cw + rd32 bs a) then
      match inner with
      | none => .error .parse                            -- `UnsizedUnexpected`: inner Mut not present
      | some t =>
        match notifyP t bs src neg amt with
        | .error e => .error e
        | .ok t' => .ok (.ul a len cw lo (applyDelta neg amt hi) (some t') mb)
    else .ok (.ul a len cw lo hi inner mb)
  | .node ks, bs, src, neg, amt =>
    match notifyPs ks bs src neg amt with
    | .error e => .error e
    | .ok ks' => .ok (.node ks')
  | .start a var inner, bs, src, neg, amt =>
    match notifyPo inner bs src neg amt with
    | .error e => .error e
    | .ok inner' => .ok (.start (if src < a then applyDelta neg amt a else a) var inner')
def notifyPs : List PtrTree → List Nat → Nat → Bool → Nat → Except Err (List PtrTree)
  | [], _, _, _, _ => .ok []
  | t :: ts, bs, src, neg, amt =>
    match notifyP t bs src neg amt with
    | .error e => .error e
    | .ok t' => match notifyPs ts bs src neg amt with
      | .error e => .error e
      | .ok ts' => .ok (t' :: ts')
def notifyPo : Option PtrTree → List Nat → Nat → Bool → Nat → Except Err (Option PtrTree)
  | none, _, _, _, _ => .ok none
  | some t, bs, src, neg, amt =>
    match notifyP t bs src neg amt with
    | .error e => .error e
    | .ok t' => .ok (some t')
end

/-! ## `check_pointers` -/

mutual
/-- `UnsizedTypePtr::check_pointers(range, cursor)`: the verdict and the new cursor. -/
def checkP : PtrTree → (lo hi cursor : Nat) → Bool × Nat
  | .leaf a _ rem, lo, hi, cur =>
    (decide (cur ≤ a) && decide (lo ≤ a) && (if rem then decide (a ≤ hi) else decide (a < hi)), a)
  | .ul a _ _ _ _ inner _, lo, hi, cur =>
    (decide (cur ≤ a) && decide (lo ≤ a) && decide (a < hi) && checkPo inner lo hi, a)
  | .node ks, lo, hi, cur => checkPs ks lo hi cur
  | .start a _ inner, lo, hi, cur =>
    match inner with
    | none => (decide (cur ≤ a) && decide (lo ≤ a) && decide (a < hi), a)
    | some t =>
      let r := checkP t lo hi a
      (decide (cur ≤ a) && decide (lo ≤ a) && decide (a < hi) && r.1, r.2)
def checkPs : List PtrTree → (lo hi cursor : Nat) → Bool × Nat
  | [], _, _, cur => (true, cur)
  | t :: ts, lo, hi, cur =>
    let r := checkP t lo hi cur
    let r2 := checkPs ts lo hi r.2
    (r.1 && r2.1, r2.2)
def checkPo : Option PtrTree → (lo hi : Nat) → Bool
  | none, _, _ => true
  | some t, lo, hi => (checkP t lo hi lo).1
end


/-! ## The tree after taking the accessors along a path -/

/-- The pointer tree of the value `v` at `base` after the chain of child accessors along `p` has been
taken from a fresh borrow, with the tree `T` sitting at the end of the chain. Taking an element accessor of
an `UnsizedList`/`UnsizedMap` stores the element's pointer in `inner_exclusive` and sets
`possible_mut_borrow`; field and variant accessors point into the parent's tree. -/
def chainWith : Shape → Val → Nat → List Step → PtrTree → PtrTree
  | _, _, _, [], T => T
  | s, v, b, st :: p, T =>
    match resolve1 s v st with
    | .error _ => treeOf s v b
    | .ok (t, u) =>
      let child := chainWith t u (b + (stepPre s v st 0).length) p T
      match s, v, st with
      | .struct sized fs, .record _ vs, .field i =>
        if sized.isEmpty then .node ((treesOf fs vs b).set i child)
        else .node (.leaf b (Fixed.sizeList sized) false :: (treesOf fs vs (b + Fixed.sizeList sized)).set i child)
      | .ulist e, .useq vs, .elem _ =>
        .ul b vs.length 4 b (b + size (.ulist e) (.useq vs)) (some child) true
      | .umap kw e, .umap es, .elem _ =>
        .ul b es.length (Shape.entryW kw) b (b + size (.umap kw e) (.umap es)) (some child) true
      | .enum _ _, .variant idx _, .payload => .start b idx (some child)
      | s, v, _ => treeOf s v b

/-- The fresh chain: every pointer on it is what `get_ptr` gives on the current bytes. -/
def chainOf (s : Shape) (v : Val) (b : Nat) (p : List Step) : PtrTree :=
  match resolve s v p with
  | .ok (t, u) => chainWith s v b p (treeOf t u (b + offsetOf s v p))
  | .error _ => treeOf s v b


/-! ## Notifications and fresh trees -/

theorem appD_add (neg : Bool) (amt b k : Nat) (h : neg = true → amt ≤ b) :
    applyDelta neg amt (b + k) = applyDelta neg amt b + k := by
  unfold applyDelta; cases neg
  · simp; omega
  · have := h rfl; simp; omega

theorem appD_gt (neg : Bool) (amt b src : Nat) (h : neg = true → amt ≤ b) (hs : src < b) :
    src < b + 0 ∧ True := ⟨by omega, trivial⟩

/-- A value that lies entirely AFTER the source pointer: every pointer in its tree shifts — the result is
the fresh tree at the shifted base. -/
def AfterOK (s : Shape) : Prop :=
  ∀ (v : Val) (b : Nat) (bs : List Nat) (src : Nat) (neg : Bool) (amt : Nat), src < b → (neg = true → amt ≤ b) →
    notifyP (treeOf s v b) bs src neg amt = .ok (treeOf s v (applyDelta neg amt b))

theorem after_trees (fs : List Shape) (ih : ∀ f ∈ fs, AfterOK f) :
    ∀ (vs : List Val) (b : Nat) (bs : List Nat) (src : Nat) (neg : Bool) (amt : Nat), src < b →
      (neg = true → amt ≤ b) →
      notifyPs (treesOf fs vs b) bs src neg amt = .ok (treesOf fs vs (applyDelta neg amt b)) := by
  induction fs with
  | nil => intro vs b bs src neg amt _ _; simp [treesOf, notifyPs]
  | cons f fs ihf =>
    intro vs b bs src neg amt hs hn
    cases vs with
    | nil => simp [treesOf, notifyPs]
    | cons v vs =>
      simp only [treesOf, notifyPs]
      rw [ih f List.mem_cons_self v b bs src neg amt hs hn]
      simp only []
      rw [ihf (fun g hg => ih g (List.mem_cons_of_mem _ hg)) vs (b + size f v) bs src neg amt (by omega)
        (fun h => by have := hn h; omega)]
      simp only []
      rw [appD_add neg amt b _ hn]

theorem after_variant (ps : List Shape) (ih : ∀ p ∈ ps, AfterOK p) :
    ∀ (i : Nat) (v : Val) (b : Nat) (bs : List Nat) (src : Nat) (neg : Bool) (amt : Nat), src < b →
      (neg = true → amt ≤ b) →
      notifyPo (variantTree ps i v b) bs src neg amt = .ok (variantTree ps i v (applyDelta neg amt b)) := by
  induction ps with
  | nil => intro i v b bs src neg amt _ _; simp [variantTree, notifyPo]
  | cons q qs ihq =>
    intro i v b bs src neg amt hs hn
    cases i with
    | zero =>
      cases q <;> simp only [variantTree, notifyPo] <;>
        first
        | rfl
        | (rw [ih _ List.mem_cons_self v b bs src neg amt hs hn])
    | succ i =>
      simp only [variantTree]
      exact ihq (fun g hg => ih g (List.mem_cons_of_mem _ hg)) i v b bs src neg amt hs hn

theorem after_all (s : Shape) : AfterOK s := by
  induction s using Shape.induct' with
  | struct sized fs ih =>
    intro v b bs src neg amt hs hn
    cases v <;> simp only [treeOf, notifyP, hs, if_true]
    rename_i sz vs
    by_cases he : sized.isEmpty = true
    · simp only [he, if_true, notifyP]
      rw [after_trees fs ih vs b bs src neg amt hs hn]
    · simp only [he, notifyP, notifyPs, hs, if_true, Bool.false_eq_true, if_false]
      rw [after_trees fs ih vs (b + Fixed.sizeList sized) bs src neg amt (by omega) (fun h => by have := hn h; omega)]
      simp only []
      rw [appD_add neg amt b _ hn]
  | enum ds ps ih =>
    intro v b bs src neg amt hs hn
    cases v <;> simp only [treeOf, notifyP, hs, if_true]
    rename_i i pl
    rw [after_variant ps ih i pl (b + 1) bs src neg amt (by omega) (fun h => by have := hn h; omega)]
    simp only []
    rw [appD_add neg amt b 1 hn]
  | ulist e ih =>
    intro v b bs src neg amt hs hn
    cases v <;> simp only [treeOf, notifyP, notifyPo, hs, if_true]
    rw [appD_add neg amt b _ hn]
  | umap kw e ih =>
    intro v b bs src neg amt hs hn
    cases v <;> simp only [treeOf, notifyP, notifyPo, hs, if_true]
    rw [appD_add neg amt b _ hn]
  | _ =>
    intro v b bs src neg amt hs hn
    cases v <;> simp only [treeOf, notifyP, hs, if_true]


/-- A (non-ZST) value that lies entirely BEFORE the source pointer, its bytes intact: nothing in its
tree moves (an `UnsizedList` sibling sees "the change happened after me"). -/
def BeforeOK (s : Shape) : Prop :=
  ∀ top ie, Shape.okAux top ie s = true → s.zst = false → ∀ v, valid s v = true → fits s v = true →
    ∀ (pre rest : List Nat) (b : Nat), b = pre.length → ∀ (src : Nat), b + size s v ≤ src →
    ∀ (neg : Bool) (amt : Nat),
      notifyP (treeOf s v b) (pre ++ encode s v ++ rest) src neg amt = .ok (treeOf s v b)

theorem before_trees (fs : List Shape) (ih : ∀ f ∈ fs, BeforeOK f) :
    Shape.okFields fs = true → Shape.zstLast false fs = false → ∀ vs, validFields fs vs = true →
      fitsFields fs vs = true → ∀ (pre rest : List Nat) (b : Nat), b = pre.length → ∀ (src : Nat),
      b + sizeFields fs vs ≤ src → ∀ (neg : Bool) (amt : Nat),
      notifyPs (treesOf fs vs b) (pre ++ encodeFields fs vs ++ rest) src neg amt = .ok (treesOf fs vs b) := by
  induction fs with
  | nil => intro _ _ vs _ _ pre rest b _ src _ neg amt; cases vs <;> simp [treesOf, notifyPs]
  | cons f fs ihf =>
    intro hok hz vs hv hf pre rest b hb src hs neg amt
    cases vs with
    | nil => simp [validFields] at hv
    | cons x xs =>
      simp only [validFields, fitsFields, Bool.and_eq_true] at hv hf
      simp only [sizeFields] at hs
      -- `f` is not ZST: either not last, or last of a non-ZST struct
      have hfo : Shape.okAux false false f = true ∧ f.zst = false ∧ (fs ≠ [] → Shape.okFields fs = true ∧ Shape.zstLast false fs = false) := by
        cases fs with
        | nil => exact ⟨by simpa [Shape.okFields] using hok, by simpa [Shape.zstLast] using hz, fun h => absurd rfl h⟩
        | cons g gs =>
          obtain ⟨h1, h2, h3⟩ := okFields_cons2 f g gs hok
          rw [zstLast_cons_cons] at hz
          exact ⟨h1, h2, fun _ => ⟨h3, hz⟩⟩
      simp only [treesOf, notifyPs, encodeFields]
      have e1 : pre ++ (encode f x ++ encodeFields fs xs) ++ rest = pre ++ encode f x ++ (encodeFields fs xs ++ rest) := by
        simp [List.append_assoc]
      rw [e1, ih f List.mem_cons_self false false hfo.1 hfo.2.1 x hv.1 hf.1 pre _ b hb src (by omega) neg amt]
      simp only []
      by_cases hfs : fs = []
      · subst hfs; cases xs <;> simp [treesOf, notifyPs]
      · obtain ⟨h3, h4⟩ := hfo.2.2 hfs
        have e2 : pre ++ encode f x ++ (encodeFields fs xs ++ rest) = (pre ++ encode f x) ++ encodeFields fs xs ++ rest := by
          simp [List.append_assoc]
        rw [e2, ihf (fun g hg => ih g (List.mem_cons_of_mem _ hg)) h3 h4 xs hv.2 hf.2 (pre ++ encode f x) rest
          (b + size f x) (by simp [hb, encode_size_all f x hv.1]) src (by omega) neg amt]


theorem variantTree_unit (ps : List Shape) (i : Nat) (pl : Val) (b : Nat) (ht : ps[i]? = some .unit) :
    variantTree ps i pl b = none := by
  induction i generalizing ps with
  | zero => cases ps with
    | nil => simp at ht
    | cons p ps => simp at ht; subst ht; rfl
  | succ i ih => cases ps with
    | nil => simp at ht
    | cons p ps => simp only [variantTree]; exact ih ps (by simpa using ht)

theorem variantTree_some (ps : List Shape) (i : Nat) (t : Shape) (pl : Val) (b : Nat) (ht : ps[i]? = some t)
    (hu : t ≠ .unit) : variantTree ps i pl b = some (treeOf t pl b) := by
  induction i generalizing ps with
  | zero => cases ps with
    | nil => simp at ht
    | cons p ps => simp at ht; subst ht; cases p <;> first | rfl | exact absurd rfl hu
  | succ i ih => cases ps with
    | nil => simp at ht
    | cons p ps => simp only [variantTree]; exact ih ps (by simpa using ht)

theorem before_all (s : Shape) : BeforeOK s := by
  induction s using Shape.induct' with
  | struct sized fs ih =>
    intro top ie hok hz v hv hf pre rest b hb src hs neg amt
    cases v <;> simp only [valid, Bool.false_eq_true] at hv
    rename_i sz vs
    simp only [Shape.okAux, Bool.and_eq_true] at hok
    simp only [Bool.and_eq_true, beq_iff_eq, decide_eq_true_eq] at hv
    simp only [fits] at hf
    simp only [Shape.zst] at hz
    simp only [size] at hs
    simp only [treeOf, encode]
    have e1 : pre ++ (sz ++ encodeFields fs vs) ++ rest = (pre ++ sz) ++ encodeFields fs vs ++ rest := by
      simp [List.append_assoc]
    by_cases he : sized.isEmpty = true
    · have hs0 : Fixed.sizeList sized = 0 := by
        cases sized with
        | nil => rfl
        | cons _ _ => simp at he
      simp only [he, if_true, notifyP]
      have hsz : sz = [] := by cases sz with | nil => rfl | cons _ _ => simp [hs0] at hv
      subst hsz
      rw [e1, List.append_nil, before_trees fs ih hok.2 hz vs hv.2 hf pre rest b hb src (by omega) neg amt]
    · simp only [he, Bool.false_eq_true, if_false, notifyP, notifyPs]
      have h1 : ¬ src < b := by omega
      simp only [h1, if_false, Bool.false_and, Bool.false_eq_true]
      rw [e1, before_trees fs ih hok.2 hz vs hv.2 hf (pre ++ sz) rest (b + Fixed.sizeList sized)
        (by simp [hb, hv.1.1.1]) src (by omega) neg amt]
  | enum ds ps ih =>
    intro top ie hok hz v hv hf pre rest b hb src hs neg amt
    cases v <;> simp only [valid, Bool.false_eq_true] at hv
    rename_i i pl
    simp only [Shape.okAux, Bool.and_eq_true, beq_iff_eq, decide_eq_true_eq] at hok
    simp only [Bool.and_eq_true, decide_eq_true_eq] at hv
    simp only [fits] at hf
    simp only [Shape.zst] at hz
    obtain ⟨t, ht, hvt⟩ := validVariant_get ps i pl hv.2
    have hd : ds[i]? = some ds[i] := List.getElem?_eq_getElem hv.1
    have hst : sizeVariant ps i pl = size t pl := by
      have : ∀ (qs : List Shape) (j : Nat), qs[j]? = some t → sizeVariant qs j pl = size t pl := by
        intro qs j
        induction j generalizing qs with
        | zero => intro h; cases qs with
          | nil => simp at h
          | cons q qs => simp at h; subst h; rfl
        | succ j ihj => intro h; cases qs with
          | nil => simp at h
          | cons q qs => simp only [sizeVariant]; exact ihj qs (by simpa using h)
      exact this ps i ht
    simp only [size, hst] at hs
    simp only [treeOf, encode, notifyP]
    rw [encodeVariant_get ds ps i pl _ t hd ht]
    have h1 : ¬ src < b := by omega
    by_cases hu : t = .unit
    · subst hu
      rw [variantTree_unit ps i pl (b + 1) ht]
      simp [notifyPo, h1]
    · rw [variantTree_some ps i t pl (b + 1) ht hu]
      simp only [notifyPo]
      have e1 : ∀ E : List Nat, pre ++ ds[i] :: E ++ rest = (pre ++ [ds[i]]) ++ E ++ rest := by
        intro E; simp [List.append_assoc]
      rw [e1, ih _ (List.mem_of_getElem? ht) false true (okPayloads_get ps i _ ht hok.2)
        (zstAny_false_mem ps hz _ (List.mem_of_getElem? ht)) pl hvt (fitsVariant_get ps i pl _ ht hf)
        (pre ++ [ds[i]]) rest (b + 1) (by simp [hb]) src (by omega) neg amt]
      simp [h1]
  | ulist e ih =>
    intro top ie hok hz v hv hf pre rest b hb src hs neg amt
    cases v <;> simp only [valid, Bool.false_eq_true] at hv
    rename_i vs
    simp only [fits, Bool.and_eq_true, decide_eq_true_eq] at hf
    have hkeys : ∀ k ∈ vs.map (fun _ => ([] : List Nat)), k.length = 0 := by
      intro k hk; obtain ⟨_, _, rfl⟩ := List.mem_map.1 hk; rfl
    have hsizes := map_encode_length e vs hv
    have husz : rd32 (pre ++ encode (.ulist e) (.useq vs) ++ rest) b = (vs.map (size e)).sum := by
      rw [encode_ulist_uBytes, uBytes, ← hsizes]
      have e1 : pre ++ (uHdrOf (vs.map fun _ => []) ((vs.map (encode e)).map List.length)
          ++ (vs.map (encode e)).flatten) ++ rest
          = pre ++ uHdrOf (vs.map fun _ => []) ((vs.map (encode e)).map List.length)
            ++ ((vs.map (encode e)).flatten ++ rest) := by simp [List.append_assoc]
      rw [e1, rd32_uHdr_usz _ _ pre _ b hb (by rw [hsizes]; exact hf.1.2)]
    simp only [size] at hs
    simp only [treeOf, notifyP, husz]
    have h1 : ¬ src < b := by omega
    have h2 : src ≠ b := by omega
    have h3 : ¬ src < b + (12 + vs.length * 4 + (vs.map (size e)).sum) := by omega
    simp only [h1, h2, h3, if_false]
  | umap kw e ih =>
    intro top ie hok hz v hv hf pre rest b hb src hs neg amt
    cases v <;> simp only [valid, Bool.false_eq_true] at hv
    rename_i es
    simp only [Bool.and_eq_true] at hv
    simp only [fits, Bool.and_eq_true, decide_eq_true_eq] at hf
    have hvall : es.all (fun kv => valid e kv.2) = true := by
      rw [List.all_eq_true] at hv ⊢
      intro x hx'; have := hv.1 x hx'; simp only [Bool.and_eq_true] at this; exact this.2
    have hsizes := map_encode_length_kv e es hvall
    have husz : rd32 (pre ++ encode (.umap kw e) (.umap es) ++ rest) b = (es.map (fun kv => size e kv.2)).sum := by
      rw [encode_umap_uBytes, uBytes, ← hsizes]
      have e1 : pre ++ (uHdrOf (es.map (·.1)) ((es.map fun kv => encode e kv.2).map List.length)
          ++ (es.map fun kv => encode e kv.2).flatten) ++ rest
          = pre ++ uHdrOf (es.map (·.1)) ((es.map fun kv => encode e kv.2).map List.length)
            ++ ((es.map fun kv => encode e kv.2).flatten ++ rest) := by simp [List.append_assoc]
      rw [e1, rd32_uHdr_usz _ _ pre _ b hb (by rw [hsizes]; exact hf.1.2)]
    simp only [size] at hs
    simp only [treeOf, notifyP, husz]
    have h1 : ¬ src < b := by omega
    have h2 : src ≠ b := by omega
    have h3 : ¬ src < b + (12 + es.length * Shape.entryW kw + (es.map (fun kv => size e kv.2)).sum) := by omega
    simp only [h1, h2, h3, if_false]
  | rem => intro top ie hok hz; simp [Shape.zst] at hz
  | _ =>
    intro top ie hok hz v hv hf pre rest b hb src hs neg amt
    have h1 : ¬ src < b := by omega
    cases v <;> simp only [treeOf, notifyP, h1, if_false, Bool.false_and, Bool.false_eq_true]

end Unsized.Ptr
