import Unsized.MachineNodeSet
/-!
# Node-level refinement: `Map` (binary search on the keys, in-place value stores, `insert_all` loop)
-/
namespace Unsized.Machine
open Common Unsized Unsized.Text

theorem map_enc (kw : Nat) (f : Fixed) (lw : Nat) (es : List (List Nat)) :
    encode (.map kw f lw) (.seq es) = leN lw es.length ++ es.flatten := rfl

/-- entry validity of a `Map` -/
def validKV (kw : Nat) (f : Fixed) (x : List Nat) : Bool :=
  x.length == kw + f.size && f.valid (x.drop kw) && decide (BytesWF x)

theorem good_map {kw : Nat} {f : Fixed} {lw : Nat} {es : List (List Nat)} (g : Good (.map kw f lw) (.seq es)) :
    (∀ x ∈ es, validKV kw f x = true) ∧ es.length < 256 ^ lw ∧ (kw + f.size) * es.length < Shape.usizeLim
      ∧ strictKeys (es.map (keyOf kw)) = true := by
  obtain ⟨_, hv, hf⟩ := g
  simp only [valid, Bool.and_eq_true, List.all_eq_true] at hv
  simp only [fits, Bool.and_eq_true, decide_eq_true_eq] at hf
  exact ⟨fun x hx => by have := hv.1 x hx; simpa [validKV] using this, hf.1, hf.2, hv.2⟩

theorem good_map_of {kw : Nat} {f : Fixed} {lw : Nat} {es : List (List Nat)} (hok : OkS (.map kw f lw))
    (hv : ∀ x ∈ es, validKV kw f x = true) (hl : es.length < 256 ^ lw)
    (hu : (kw + f.size) * es.length < Shape.usizeLim) (hs : strictKeys (es.map (keyOf kw)) = true) :
    Good (.map kw f lw) (.seq es) := by
  refine ⟨hok, ?_, ?_⟩
  · simp only [valid, Bool.and_eq_true, List.all_eq_true]
    exact ⟨fun x hx => by have := hv x hx; simpa [validKV] using this, hs⟩
  · simp [fits, hl, hu]

theorem validKV_len {kw : Nat} {f : Fixed} {x : List Nat} (h : validKV kw f x = true) : x.length = kw + f.size := by
  simp only [validKV, Bool.and_eq_true, beq_iff_eq] at h; exact h.1.1

theorem validKV_mk {kw : Nat} {f : Fixed} {k x : List Nat} (hk : k.length = kw) (hkw : BytesWF k)
    (hx : validE f x = true) : validKV kw f (k ++ x) = true := by
  simp only [validE, Bool.and_eq_true, beq_iff_eq, decide_eq_true_eq] at hx
  simp only [validKV, Bool.and_eq_true, beq_iff_eq, decide_eq_true_eq, List.length_append, BytesWF_append]
  refine ⟨⟨by omega, ?_⟩, hkw, hx.2⟩
  rw [drop_append_len k x kw hk.symm]; exact hx.1.2

theorem keyOf_append (kw : Nat) (k x : List Nat) (h : k.length = kw) : keyOf kw (k ++ x) = rdLE k := by
  simp [keyOf, ← h]

/-- Storing a value into entry `j` of the serialized map. -/
theorem map_store_bytes (kw vw lw : Nat) (es : List (List Nat)) (j : Nat) (x : List Nat)
    (hes : ∀ y ∈ es, y.length = kw + vw) (hx : x.length = vw) (hj : j < es.length) :
    wr (leN lw es.length ++ es.flatten) (lw + j * (kw + vw) + kw) x
      = leN lw es.length ++ (es.set j ((es[j]).take kw ++ x)).flatten := by
  rw [flatten_set_split es j _ hj, flatten_split es j hj]
  have hej := hes _ (List.getElem_mem hj)
  have e1 : leN lw es.length ++ ((es.take j).flatten ++ es[j] ++ (es.drop (j + 1)).flatten)
      = (leN lw es.length ++ (es.take j).flatten ++ (es[j]).take kw) ++ (es[j]).drop kw ++ (es.drop (j + 1)).flatten := by
    conv => lhs; rw [← List.take_append_drop kw es[j]]
    simp [List.append_assoc]
  rw [e1, wr_after _ ((es[j]).drop kw) x _ _ (by
    simp only [List.length_append, leN_length, List.length_take]
    rw [flatten_width (kw + vw) (es.take j) (fun y hy => hes y (List.mem_of_mem_take hy))]
    simp [Nat.min_eq_left (Nat.le_of_lt hj), hej]) (by simp [hej, hx])]
  simp [List.append_assoc]

theorem map_old_bytes (kw vw lw : Nat) (es : List (List Nat)) (j : Nat)
    (hes : ∀ y ∈ es, y.length = kw + vw) (hj : j < es.length) :
    rd (leN lw es.length ++ es.flatten) (lw + j * (kw + vw) + kw) vw = (es[j]).drop kw := by
  rw [flatten_split es j hj]
  have hej := hes _ (List.getElem_mem hj)
  have e1 : leN lw es.length ++ ((es.take j).flatten ++ es[j] ++ (es.drop (j + 1)).flatten)
      = (leN lw es.length ++ (es.take j).flatten ++ (es[j]).take kw) ++ (es[j]).drop kw ++ (es.drop (j + 1)).flatten := by
    conv => lhs; rw [← List.take_append_drop kw es[j]]
    simp [List.append_assoc]
  rw [e1, rd_after _ _ _ _ _ (by
    simp only [List.length_append, leN_length, List.length_take]
    rw [flatten_width (kw + vw) (es.take j) (fun y hy => hes y (List.mem_of_mem_take hy))]
    simp [Nat.min_eq_left (Nat.le_of_lt hj), hej]) (by simp [hej])]


theorem map_set_keys (kw : Nat) (es : List (List Nat)) (j : Nat) (y : List Nat) (hj : j < es.length)
    (hk : keyOf kw y = keyOf kw es[j]) : (es.set j y).map (keyOf kw) = es.map (keyOf kw) := by
  rw [List.map_set]
  apply List.ext_getElem (by simp)
  intro i h1 h2
  by_cases hji : j = i
  · subst hji; simp [hk]
  · simp [List.getElem_set_ne hji]

/-- What the binary search of a `Map` finds, in terms of the owned model. -/
theorem map_search {s v p m} {kw : Nat} {f : Fixed} {lw : Nat} {es : List (List Nat)}
    (F : Focus s v p (.map kw f lw) (.seq es) m) (k : List Nat) (hk : k.length = kw) (hkw : BytesWF k) :
    (∃ j, ∃ hj : j < es.length, search (listKeys (kw + f.size) lw kw (offsetOf s v p) m.bytes) (rdLE k) 0 = .at j
        ∧ (es[j]).take kw = k ∧ Spec.findKey kw (rdLE k) es = some es[j] ∧ Spec.hasKey kw (rdLE k) es = true
        ∧ (∀ x, insKey kw (k ++ x) es = es.set j (k ++ x))
        ∧ Spec.delKey kw (rdLE k) es = Spec.removeRange es j (j + 1))
    ∨ (∃ j, j ≤ es.length ∧ search (listKeys (kw + f.size) lw kw (offsetOf s v p) m.bytes) (rdLE k) 0 = .ins j
        ∧ Spec.findKey kw (rdLE k) es = none ∧ Spec.hasKey kw (rdLE k) es = false
        ∧ (∀ x, insKey kw (k ++ x) es = Spec.insertAt es j [k ++ x])) := by
  obtain ⟨hval, hlen, hus, hsorted⟩ := good_map F.sub
  have hes : ∀ y ∈ es, y.length = kw + f.size := fun y hy => validKV_len (hval y hy)
  rw [listKeys_enc F (kw + f.size) lw kw (map_enc kw f lw es) hes hlen]
  rcases search_sorted (keyOf kw) es (rdLE k) 0 hsorted with ⟨j, hj, hse, hkj, hb, ha⟩ | ⟨j, hj, hse, hb, ha⟩
  · left
    refine ⟨j, hj, by simpa using hse, ?_, ?_, ?_, ?_, ?_⟩
    · have hv := hval _ (List.getElem_mem hj)
      simp only [validKV, Bool.and_eq_true, beq_iff_eq, decide_eq_true_eq] at hv
      exact rdLE_inj (by simp [hv.1.1, hk]) (BytesWF_take kw hv.2) hkw hkj
    · exact find_of_split (keyOf kw) es (rdLE k) j hj hkj hb
    · simp only [Spec.hasKey, List.any_eq_true, beq_iff_eq]; exact ⟨es[j], List.getElem_mem _, hkj⟩
    · intro x
      exact insKey_replace kw (k ++ x) es j hj (by rw [keyOf_append kw k x hk]; exact hkj)
        (by rw [keyOf_append kw k x hk]; exact hb)
    · simp only [Spec.delKey, Spec.removeRange]
      exact filter_ne_of_split (keyOf kw) es (rdLE k) j hj hkj hb ha
  · right
    refine ⟨j, hj, by simpa using hse, ?_, any_false_of_split (keyOf kw) es (rdLE k) j hb ha, ?_⟩
    · simp only [Spec.findKey]
      apply List.find?_eq_none.2
      intro y hy
      have : (es.any fun y => keyOf kw y == rdLE k) = false := any_false_of_split (keyOf kw) es (rdLE k) j hb ha
      rw [List.any_eq_false] at this
      exact this y hy
    · intro x
      exact insKey_new kw (k ++ x) es j (by rw [keyOf_append kw k x hk]; exact hb)
        (by rw [keyOf_append kw k x hk]; exact ha)


/-- Overwriting the value of entry `j` in place (existing key of `Map::insert`, `get_mut` store). -/
theorem map_store {s v p m} {kw : Nat} {f : Fixed} {lw : Nat} {es : List (List Nat)}
    (F : Focus s v p (.map kw f lw) (.seq es) m) (c : Calm m) (k x : List Nat) (hk : k.length = kw)
    (hkw : BytesWF k) (hx : validE f x = true) (j : Nat) (hj : j < es.length) (hkj : (es[j]).take kw = k)
    (hroom : (plug s v p (encode (.map kw f lw) (.seq (es.set j (k ++ x))))).length ≤ m.orig + maxIncrease) :
    Focus s (subst s v p (.seq (es.set j (k ++ x)))) p (.map kw f lw) (.seq (es.set j (k ++ x)))
      { m with bytes := wr m.bytes (offsetOf s v p + lw + j * (kw + f.size) + kw) x }
    ∧ rd m.bytes (offsetOf s v p + lw + j * (kw + f.size) + kw) f.size = (es[j]).drop kw := by
  obtain ⟨hval, hlen, hus, hsorted⟩ := good_map F.sub
  have hes : ∀ y ∈ es, y.length = kw + f.size := fun y hy => validKV_len (hval y hy)
  have hE : (encode (.map kw f lw) (.seq es)).length = lw + es.length * (kw + f.size) := by
    rw [map_enc, List.length_append, leN_length, flatten_width (kw + f.size) es hes]
  have hpos : offsetOf s v p + lw + j * (kw + f.size) + kw = offsetOf s v p + (lw + j * (kw + f.size) + kw) := by omega
  have hin : lw + j * (kw + f.size) + kw + f.size ≤ (encode (.map kw f lw) (.seq es)).length := by
    rw [hE]
    have : (j + 1) * (kw + f.size) ≤ es.length * (kw + f.size) := Nat.mul_le_mul_right _ hj
    rw [Nat.add_mul] at this; omega
  have hxl := validE_len hx
  constructor
  · have hw := enc_wr p s v _ _ F.good F.res x (lw + j * (kw + f.size) + kw) (by rw [hxl]; exact hin)
    have hb : wr m.bytes (offsetOf s v p + lw + j * (kw + f.size) + kw) x
        = plug s v p (encode (.map kw f lw) (.seq (es.set j (k ++ x)))) := by
      rw [hpos, F.bytes, hw, map_enc, map_store_bytes kw f.size lw es j x hes hxl hj, hkj]
      simp [map_enc]
    have g' : Good (.map kw f lw) (.seq (es.set j (k ++ x))) := by
      apply good_map_of F.sub.ok
      · intro y hy
        rcases List.mem_or_eq_of_mem_set hy with h | h
        · exact hval y h
        · subst h; exact validKV_mk hk hkw hx
      · simpa using hlen
      · simpa using hus
      · rw [map_set_keys kw es j (k ++ x) hj (by rw [keyOf_append kw k x hk, keyOf, hkj])]; exact hsorted
    refine F.finish _ g' _ hb ?_
    simp only []; rw [hb]; exact F.small c _ hroom
  · have hr := enc_rd p s v _ _ F.good F.res (lw + j * (kw + f.size) + kw) f.size hin
    rw [hpos, F.bytes, hr, map_enc, map_old_bytes kw f.size lw es j hes hj]

/-- `Map::insert` of one entry, machine vs owned model. -/
theorem map_insert_step {s v p m} {kw : Nat} {f : Fixed} {lw : Nat} {es : List (List Nat)}
    (F : Focus s v p (.map kw f lw) (.seq es) m) (c : Calm m) (k x : List Nat) (hk : k.length = kw)
    (hkw : BytesWF k) (hx : validE f x = true) :
    (∀ old, Spec.findKey kw (rdLE k) es = some old →
        (plug s v p (encode (.map kw f lw) (.seq (insKey kw (k ++ x) es)))).length ≤ m.orig + maxIncrease →
        ∃ m', mapInsert ⟨s, p⟩ kw f.size lw (offsetOf s v p) k x m = (m', .ok (some (old.drop kw)))
          ∧ Focus s (subst s v p (.seq (insKey kw (k ++ x) es))) p (.map kw f lw) (.seq (insKey kw (k ++ x) es)) m'
          ∧ m'.orig = m.orig ∧ m'.refuse = m.refuse)
    ∧ (Spec.findKey kw (rdLE k) es = none → 256 ^ lw ≤ es.length + 1 →
        mapInsert ⟨s, p⟩ kw f.size lw (offsetOf s v p) k x m = (m, .error .toPrim))
    ∧ (Spec.findKey kw (rdLE k) es = none → ¬ 256 ^ lw ≤ es.length + 1 →
        (plug s v p (encode (.map kw f lw) (.seq (insKey kw (k ++ x) es)))).length ≤ m.orig + maxIncrease →
        ∃ m', mapInsert ⟨s, p⟩ kw f.size lw (offsetOf s v p) k x m = (m', .ok none)
          ∧ Focus s (subst s v p (.seq (insKey kw (k ++ x) es))) p (.map kw f lw) (.seq (insKey kw (k ++ x) es)) m'
          ∧ m'.orig = m.orig ∧ m'.refuse = m.refuse) := by
  obtain ⟨hval, hlen, hus, hsorted⟩ := good_map F.sub
  have hes : ∀ y ∈ es, y.length = kw + f.size := fun y hy => validKV_len (hval y hy)
  unfold mapInsert
  rcases map_search F k hk hkw with ⟨j, hj, hse, hkj, hfind, _, hins, _⟩ | ⟨j, hj, hse, hfind, _, hins⟩
  · simp only [hse]
    refine ⟨fun old ho hroom => ?_, fun h => (by rw [hfind] at h; cases h), fun h => (by rw [hfind] at h; cases h)⟩
    rw [hfind] at ho; cases ho
    rw [hins x] at hroom ⊢
    obtain ⟨F', hold⟩ := map_store F c k x hk hkw hx j hj hkj hroom
    exact ⟨_, by rw [hold], F', rfl, rfl⟩
  · simp only [hse]
    refine ⟨fun old ho => (by rw [hfind] at ho; cases ho), fun _ hov => ?_, fun _ hov hroom => ?_⟩
    · unfold listInsertAll
      have hrd : rdN m.bytes (offsetOf s v p) lw = es.length := by
        have := enc_rdN p s v _ _ F.good F.res 0 lw (by simp [map_enc])
        rw [Nat.add_zero] at this
        rw [F.bytes, this, map_enc, rdN_leN_zero lw _ _ hlen]
      have h1 : ¬ es.length < j := by omega
      simp only [hrd, h1, List.length_singleton, hov, if_true, if_false]
    · rw [hins x] at hroom ⊢
      have hwid : ∀ y ∈ Spec.insertAt es j [k ++ x], y.length = kw + f.size := by
        intro y hy
        simp only [Spec.insertAt, List.mem_append, List.mem_singleton] at hy
        rcases hy with (hy | hy) | hy
        · exact hes y (List.mem_of_mem_take hy)
        · subst hy; simp [hk, validE_len hx]
        · exact hes y (List.mem_of_mem_drop hy)
      have g' : Good (.map kw f lw) (.seq (Spec.insertAt es j [k ++ x])) := by
        apply good_map_of F.sub.ok
        · intro y hy
          simp only [Spec.insertAt, List.mem_append, List.mem_singleton] at hy
          rcases hy with (hy | hy) | hy
          · exact hval y (List.mem_of_mem_take hy)
          · subst hy; exact validKV_mk hk hkw hx
          · exact hval y (List.mem_of_mem_drop hy)
        · simp [Spec.insertAt]; omega
        · have hpl := plug_length p s v _ _ F.good F.res (encode (.map kw f lw) (.seq (Spec.insertAt es j [k ++ x])))
          have hle := offsetOf_le p s v _ _ F.good F.res
          have hsm := F.small c _ hroom
          have : (kw + f.size) * (Spec.insertAt es j [k ++ x]).length
              ≤ (encode (.map kw f lw) (.seq (Spec.insertAt es j [k ++ x]))).length := by
            simp only [map_enc, List.length_append, leN_length]
            rw [flatten_width (kw + f.size) _ hwid, Nat.mul_comm]; omega
          have := u32_lt_usize
          omega
        · rw [← hins x]
          have hp := insKey_pairwise kw (k ++ x) es (by rw [strictKeys, decide_eq_true_eq] at hsorted; exact hsorted)
          rw [strictKeys, decide_eq_true_eq]; exact hp
      obtain ⟨m', hm', F', ho, hr⟩ := seq_insertAll F c (kw + f.size) lw (map_enc kw f lw) hes hlen j [k ++ x]
        (by intro y hy; simp at hy; subst hy; simp [hk, validE_len hx]) hj (by simp; omega) g' hroom
      exact ⟨m', by rw [hm'], F', ho, hr⟩


theorem insKey_len_mono (kw : Nat) (x : List Nat) (l : List (List Nat)) : l.length ≤ (insKey kw x l).length := by
  induction l with
  | nil => simp [insKey]
  | cons y r ihr =>
    simp only [insKey]
    split
    · simp
    · split
      · simp
      · simp only [List.length_cons]; omega

theorem mapInsertAll_len_mono (kw lw : Nat) (kvs : List (List Nat × List Nat)) : ∀ (es : List (List Nat)) (n : Nat)
    (es' : List (List Nat)) (n' : Nat), Spec.mapInsertAll kw lw kvs es n = .ok (es', n') → es.length ≤ es'.length := by
  induction kvs with
  | nil => intro es n es' n' h; simp [Spec.mapInsertAll] at h; rw [← h.1]; omega
  | cons kx kvs ih =>
    intro es n es' n' h
    obtain ⟨k, x⟩ := kx
    simp only [Spec.mapInsertAll] at h
    have hl := insKey_len_mono kw (k ++ x) es
    split at h
    · have := ih _ _ es' n' h; omega
    · split at h
      · cases h
      · have := ih _ _ es' n' h; omega

theorem mapInsertAll_mem (kw lw : Nat) (kvs : List (List Nat × List Nat)) : ∀ (es : List (List Nat)) (n : Nat)
    (es' : List (List Nat)) (n' : Nat), Spec.mapInsertAll kw lw kvs es n = .ok (es', n') →
    ∀ y ∈ es', y ∈ es ∨ ∃ kx ∈ kvs, y = kx.1 ++ kx.2 := by
  induction kvs with
  | nil => intro es n es' n' h; simp [Spec.mapInsertAll] at h; rw [← h.1]; intro y hy; exact Or.inl hy
  | cons kx kvs ih =>
    intro es n es' n' h y hy
    obtain ⟨k, x⟩ := kx
    simp only [Spec.mapInsertAll] at h
    have step : ∀ n2, Spec.mapInsertAll kw lw kvs (insKey kw (k ++ x) es) n2 = .ok (es', n') →
        y ∈ es ∨ ∃ kx ∈ (k, x) :: kvs, y = kx.1 ++ kx.2 := by
      intro n2 h2
      rcases ih _ _ es' n' h2 y hy with h' | ⟨kx, hkx, rfl⟩
      · rcases insKey_mem kw (k ++ x) es y h' with h'' | h''
        · exact Or.inr ⟨(k, x), List.mem_cons_self, h''⟩
        · exact Or.inl h''
      · exact Or.inr ⟨kx, List.mem_cons_of_mem _ hkx, rfl⟩
    split at h
    · exact step _ h
    · split at h
      · cases h
      · exact step _ h

/-- `Map::insert_all`: the loop of single inserts follows the owned model. -/
theorem map_insertAll_loop {s p} {kw : Nat} {f : Fixed} {lw : Nat} (kvs : List (List Nat × List Nat)) :
    ∀ (v : Val) (m : Mem) (es : List (List Nat)) (n : Nat), Focus s v p (.map kw f lw) (.seq es) m → Calm m →
      (∀ kx ∈ kvs, kx.1.length = kw ∧ BytesWF kx.1 ∧ validE f kx.2 = true) →
      ∀ (es' : List (List Nat)) (n' : Nat), Spec.mapInsertAll kw lw kvs es n = .ok (es', n') →
      (plug s v p (encode (.map kw f lw) (.seq es'))).length ≤ m.orig + maxIncrease →
      ∃ m', mapInsertAll ⟨s, p⟩ kw f.size lw (offsetOf s v p) kvs n m = (m', .ok (.count n'))
        ∧ Focus s (subst s v p (.seq es')) p (.map kw f lw) (.seq es') m'
        ∧ m'.orig = m.orig ∧ m'.refuse = m.refuse := by
  induction kvs with
  | nil =>
    intro v m es n F c _ es' n' h hroom
    simp [Spec.mapInsertAll] at h
    obtain ⟨rfl, rfl⟩ := h
    exact ⟨m, rfl, F.same, rfl, rfl⟩
  | cons kx kvs ih =>
    intro v m es n F c hkvs es' n' h hroom
    obtain ⟨k, x⟩ := kx
    obtain ⟨hk, hkw, hx⟩ := hkvs (k, x) List.mem_cons_self
    simp only [] at hk hkw hx
    have hkvs' : ∀ kx ∈ kvs, kx.1.length = kw ∧ BytesWF kx.1 ∧ validE f kx.2 = true :=
      fun y hy => hkvs y (List.mem_cons_of_mem _ hy)
    obtain ⟨h1, h2, h3⟩ := map_insert_step F c k x hk hkw hx
    obtain ⟨hval, _, _, _⟩ := good_map F.sub
    simp only [Spec.mapInsertAll] at h
    simp only [mapInsertAll]
    -- common continuation after a successful single insert
    have cont : ∀ (n2 : Nat) (o : Option (List Nat)),
        Spec.mapInsertAll kw lw kvs (insKey kw (k ++ x) es) n2 = .ok (es', n') →
        ((plug s v p (encode (.map kw f lw) (.seq (insKey kw (k ++ x) es)))).length ≤ m.orig + maxIncrease →
          ∃ m1, mapInsert ⟨s, p⟩ kw f.size lw (offsetOf s v p) k x m = (m1, .ok o)
            ∧ Focus s (subst s v p (.seq (insKey kw (k ++ x) es))) p (.map kw f lw) (.seq (insKey kw (k ++ x) es)) m1
            ∧ m1.orig = m.orig ∧ m1.refuse = m.refuse) →
        n2 = (if o.isNone then n + 1 else n) →
        ∃ m', (match mapInsert ⟨s, p⟩ kw f.size lw (offsetOf s v p) k x m with
            | (m1, .error er) => (m1, .error er)
            | (m1, .ok old) => mapInsertAll ⟨s, p⟩ kw f.size lw (offsetOf s v p) kvs (if old.isNone then n + 1 else n) m1)
            = (m', .ok (.count n'))
          ∧ Focus s (subst s v p (.seq es')) p (.map kw f lw) (.seq es') m'
          ∧ m'.orig = m.orig ∧ m'.refuse = m.refuse := by
      intro n2 o h2 hstep hn2
      have hmono := mapInsertAll_len_mono kw lw kvs _ _ es' n' h2
      have hpl1 := plug_length p s v _ _ F.good F.res (encode (.map kw f lw) (.seq (insKey kw (k ++ x) es)))
      have hpl2 := plug_length p s v _ _ F.good F.res (encode (.map kw f lw) (.seq es'))
      have hw1 : ∀ y ∈ insKey kw (k ++ x) es, y.length = kw + f.size := by
        intro y hy
        rcases insKey_mem kw (k ++ x) es y hy with h | h
        · subst h; simp [hk, validE_len hx]
        · exact validKV_len (hval y h)
      have hw2 : ∀ y ∈ es', y.length = kw + f.size := by
        intro y hy
        rcases mapInsertAll_mem kw lw kvs _ _ es' n' h2 y hy with h' | ⟨kx, hkx, rfl⟩
        · exact hw1 y h'
        · obtain ⟨a, _, b⟩ := hkvs' kx hkx; simp [a, validE_len b]
      have hroom1 : (plug s v p (encode (.map kw f lw) (.seq (insKey kw (k ++ x) es)))).length ≤ m.orig + maxIncrease := by
        simp only [map_enc, List.length_append, leN_length] at hpl1 hpl2 hroom ⊢
        rw [flatten_width (kw + f.size) _ hw1] at hpl1
        rw [flatten_width (kw + f.size) _ hw2] at hpl2
        have := Nat.mul_le_mul_right (kw + f.size) hmono
        omega
      obtain ⟨m1, hm1, F1, ho1, hr1⟩ := hstep hroom1
      rw [hm1]
      simp only []
      have c1 : Calm m1 := c.next ho1 hr1 (by
        rw [F1.bytes, subst_encode p s v _ _ _ F.good F.res]; exact hroom1)
      obtain ⟨hoff, hplug, hss⟩ := F.next_facts _ m1 F1 (by have := c1.fitsNow; have := c1.small; omega)
      have := ih _ m1 _ n2 F1 c1 hkvs' es' n' h2 (by rw [hplug, ho1]; exact hroom)
      rw [hoff, hss, hn2] at this
      obtain ⟨m', hm', F', ho', hr'⟩ := this
      exact ⟨m', hm', F', by rw [ho', ho1], by rw [hr', hr1]⟩
    cases hfind : Spec.findKey kw (rdLE k) es with
    | some old =>
      have hhas : Spec.hasKey kw (rdLE k) es = true := by
        rcases map_search F k hk hkw with ⟨j, hj, _, _, _, hh, _, _⟩ | ⟨j, _, _, hf, _, _⟩
        · exact hh
        · rw [hfind] at hf; cases hf
      simp only [hhas, if_true] at h
      exact cont n (some (old.drop kw)) h (fun hr => h1 old hfind hr) (by simp)
    | none =>
      have hhas : Spec.hasKey kw (rdLE k) es = false := by
        rcases map_search F k hk hkw with ⟨j, hj, _, _, hf, _, _, _⟩ | ⟨j, _, _, _, hh, _⟩
        · rw [hfind] at hf; cases hf
        · exact hh
      simp only [hhas, Bool.false_eq_true, if_false] at h
      by_cases hov : 256 ^ lw ≤ es.length + 1
      · simp only [hov, if_true] at h; cases h
      · simp only [hov, if_false] at h
        exact cont (n + 1) none h (fun hr => h3 hfind hov hr) (by simp)


/-- Every op on a `Map` node. -/
theorem map_refines {s v p m} {kw : Nat} {f : Fixed} {lw : Nat} {es : List (List Nat)}
    (F : Focus s v p (.map kw f lw) (.seq es) m) (c : Calm m) (op : Op) :
    Refines s v p (.map kw f lw) (.seq es) m op := by
  obtain ⟨hval, hlen, hus, hsorted⟩ := good_map F.sub
  have hes : ∀ y ∈ es, y.length = kw + f.size := fun y hy => validKV_len (hval y hy)
  cases op with
  | touch => exact touch_refines F
  | replace nv => exact replace_refines F c nv
  | reset => exact reset_refines F c
  | minsert k x =>
    unfold Refines
    simp only [Spec.applyNode, applyAt]
    by_cases hx : (k.length == kw && decide (BytesWF k) && validE f x) = true
    · simp only [hx, if_true]
      simp only [Bool.and_eq_true, beq_iff_eq, decide_eq_true_eq] at hx
      obtain ⟨h1, h2, h3⟩ := map_insert_step F c k x hx.1.1 hx.1.2 hx.2
      cases hfind : Spec.findKey kw (rdLE k) es with
      | some old =>
        simp only []
        intro hroom
        obtain ⟨m', hm', F', ho, hr⟩ := h1 old hfind hroom
        exact ⟨m', by rw [hm'], F', ho, hr⟩
      | none =>
        simp only []
        by_cases hov : 256 ^ lw ≤ es.length + 1
        · simp only [hov, if_true]; rw [h2 hfind hov]; exact Or.inr rfl
        · simp only [hov, if_false]
          intro hroom
          obtain ⟨m', hm', F', ho, hr⟩ := h3 hfind hov hroom
          exact ⟨m', by rw [hm'], F', ho, hr⟩
    · simp [hx]
  | mremove k =>
    unfold Refines
    simp only [Spec.applyNode, applyAt]
    by_cases hx : (k.length == kw && decide (BytesWF k)) = true
    · simp only [hx, if_true]
      simp only [Bool.and_eq_true, beq_iff_eq, decide_eq_true_eq] at hx
      unfold mapRemove
      rcases map_search F k hx.1 hx.2 with ⟨j, hj, hse, hkj, hfind, _, _, hdel⟩ | ⟨j, hj, hse, hfind, _, _⟩
      · simp only [hse, hfind]
        intro _
        rw [hdel]
        have hsub : (Spec.removeRange es j (j + 1)).Sublist es := by
          rw [← hdel]; exact List.filter_sublist
        have g' : Good (.map kw f lw) (.seq (Spec.removeRange es j (j + 1))) := by
          apply good_map_of F.sub.ok
          · intro y hy; exact hval y (hsub.subset hy)
          · have := hsub.length_le; omega
          · have := Nat.mul_le_mul_left (kw + f.size) hsub.length_le; omega
          · exact strictKeys_sublist (hsub.map _) hsorted
        obtain ⟨m', hm', F', ho, hr⟩ := seq_removeRange F c (kw + f.size) lw (map_enc kw f lw) hes hlen j (j + 1)
          (by omega) (by omega) g'
        rw [hm']
        have hold : rd m.bytes (offsetOf s v p + lw + j * (kw + f.size) + kw) f.size = (es[j]).drop kw := by
          have hE : (encode (.map kw f lw) (.seq es)).length = lw + es.length * (kw + f.size) := by
            rw [map_enc, List.length_append, leN_length, flatten_width (kw + f.size) es hes]
          have hin : lw + j * (kw + f.size) + kw + f.size ≤ (encode (.map kw f lw) (.seq es)).length := by
            rw [hE]
            have : (j + 1) * (kw + f.size) ≤ es.length * (kw + f.size) := Nat.mul_le_mul_right _ hj
            rw [Nat.add_mul] at this; omega
          have hr' := enc_rd p s v _ _ F.good F.res (lw + j * (kw + f.size) + kw) f.size hin
          have hpos : offsetOf s v p + lw + j * (kw + f.size) + kw = offsetOf s v p + (lw + j * (kw + f.size) + kw) := by omega
          rw [hpos, F.bytes, hr', map_enc, map_old_bytes kw f.size lw es j hes hj]
        exact ⟨m', by rw [hold], F', ho, hr⟩
      · simp only [hse, hfind]
        intro _
        exact ⟨m, rfl, F.same, rfl, rfl⟩
    · simp [hx]
  | mset k x =>
    unfold Refines
    simp only [Spec.applyNode, applyAt]
    by_cases hx : (k.length == kw && decide (BytesWF k) && validE f x) = true
    · simp only [hx, if_true]
      simp only [Bool.and_eq_true, beq_iff_eq, decide_eq_true_eq] at hx
      rcases map_search F k hx.1.1 hx.1.2 with ⟨j, hj, hse, hkj, _, hhas, hins, _⟩ | ⟨j, hj, hse, _, hhas, _⟩
      · simp only [hse, hhas, if_true]
        intro hroom
        rw [hins x] at hroom ⊢
        obtain ⟨F', _⟩ := map_store F c k x hx.1.1 hx.1.2 hx.2 j hj hkj hroom
        exact ⟨_, rfl, F', rfl, rfl⟩
      · simp only [hse, hhas, Bool.false_eq_true, if_false]
        intro _
        exact ⟨m, rfl, F.same, rfl, rfl⟩
    · simp [hx]
  | minsertAll kvs =>
    unfold Refines
    simp only [Spec.applyNode, applyAt]
    by_cases hx : (kvs.all fun kx => kx.1.length == kw && decide (BytesWF kx.1) && validE f kx.2) = true
    · simp only [hx, if_true]
      cases hsp : Spec.mapInsertAll kw lw kvs es 0 with
      | error er => cases er <;> first | trivial | exact Or.inl rfl
      | ok r =>
        obtain ⟨es', n'⟩ := r
        simp only []
        intro hroom
        refine map_insertAll_loop kvs v m es 0 F c ?_ es' n' hsp hroom
        intro kx hkx
        have := (List.all_eq_true.1 hx) kx hkx
        simp only [Bool.and_eq_true, beq_iff_eq, decide_eq_true_eq] at this
        exact ⟨this.1.1, this.1.2, this.2⟩
    · simp [hx]
  | clear =>
    unfold Refines
    simp only [Spec.applyNode, applyAt, listClear]
    intro _
    have hrd : rdN m.bytes (offsetOf s v p) lw = es.length := by
      have := enc_rdN p s v _ _ F.good F.res 0 lw (by simp [map_enc])
      rw [Nat.add_zero] at this
      rw [F.bytes, this, map_enc, rdN_leN_zero lw _ _ hlen]
    rw [hrd]
    have g' : Good (.map kw f lw) (.seq (Spec.removeRange es 0 es.length)) := by
      rw [removeRange_all]
      exact good_map_of F.sub.ok (by simp) (Nat.pow_pos (by omega)) (by simp [Shape.usizeLim]) (by simp [strictKeys])
    obtain ⟨m', hm', F', ho, hr⟩ := seq_removeRange F c (kw + f.size) lw (map_enc kw f lw) hes hlen 0 es.length
      (by omega) (by omega) g'
    rw [removeRange_all] at F'
    exact ⟨m', by rw [hm', unitRes_ok], F', ho, hr⟩
  | _ => unfold Refines; simp [Spec.applyNode, applyAt]

end Unsized.Machine
