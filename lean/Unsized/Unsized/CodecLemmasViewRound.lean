import Unsized.CodecLemmasRound
/-!
# Round trip of the read-side views: every view walk (`get`, `get_mut`, `iter`) over what the
serializer wrote returns the value (`view m s (encode s v ++ rest) = .ok v`), by induction on `Shape`

Same statement shape and same proof skeleton as `roundTrip_all` (`own`); needed for the `uget` return
value of the resize machine (`UnsizedList::get(i)` rendered through the element's `get` view).
-/
namespace Unsized
open Common

/-- For a well-formed shape and a well-formed value, any view walk over `encode s v ++ rest` returns
`v`. Trailing bytes only when the shape does not end in `RemainingBytes`. -/
def ViewRT (s : Shape) : Prop :=
  ∀ m top inEnum, Shape.okAux top inEnum s = true → ∀ v rest, valid s v = true → fits s v = true →
    (rest = [] ∨ s.zst = false) → view m s (encode s v ++ rest) = .ok v

theorem viewRT_fields (fs : List Shape) (ih : ∀ f ∈ fs, ViewRT f) (m : Mode) :
    Shape.okFields fs = true → ∀ vs rest, validFields fs vs = true → fitsFields fs vs = true →
      (rest = [] ∨ Shape.zstLast false fs = false) →
      viewFields m fs (encodeFields fs vs ++ rest) = .ok vs := by
  induction fs with
  | nil =>
    intro _ vs rest hv _ _
    cases vs with
    | nil => simp [viewFields]
    | cons v vs => simp [validFields] at hv
  | cons f fs ihf =>
    intro hok vs rest hv hf hz
    cases vs with
    | nil => simp [validFields] at hv
    | cons v vs =>
      simp only [validFields, Bool.and_eq_true] at hv
      simp only [fitsFields, Bool.and_eq_true] at hf
      have hsz := encode_size_all f v hv.1
      cases fs with
      | nil =>
        have hvs : vs = [] := by
          cases vs with
          | nil => rfl
          | cons _ _ => simp [validFields] at hv
        subst hvs
        simp only [Shape.okFields] at hok
        have hz' : rest = [] ∨ f.zst = false := by simpa [Shape.zstLast] using hz
        have h1 := ih f (by simp) m false false hok v rest hv.1 hf.1 hz'
        have h2 := (roundTrip_all f false false hok v rest hv.1 hf.1 hz').1
        simp only [encodeFields, List.append_nil, viewFields, h1, h2]
      | cons g gs =>
        simp only [Shape.okFields, Bool.and_eq_true, Bool.not_eq_true'] at hok
        have hz' : rest = [] ∨ Shape.zstLast false (g :: gs) = false := by
          rwa [zstLast_cons_cons] at hz
        have h1 := ih f (by simp) m false false hok.1.1 v (encodeFields (g :: gs) vs ++ rest) hv.1 hf.1
          (Or.inr hok.1.2)
        have h1e := (roundTrip_all f false false hok.1.1 v (encodeFields (g :: gs) vs ++ rest) hv.1 hf.1
          (Or.inr hok.1.2)).1
        have h2 := ihf (fun x hx => ih x (by simp [hx])) hok.2 vs rest hv.2 hf.2 hz'
        have hdrop : (encode f v ++ (encodeFields (g :: gs) vs ++ rest)).drop (size f v)
            = encodeFields (g :: gs) vs ++ rest := List.drop_left' hsz
        rw [encodeFields, List.append_assoc, viewFields, h1]
        simp only [h1e, hdrop, h2]

theorem viewRT_variant (ps : List Shape) (ih : ∀ p ∈ ps, ViewRT p) (m : Mode) :
    ∀ (ds : List Nat) (i : Nat) (v : Val) (rest : List Nat) (k : Nat),
      ds.length = ps.length → ds.Nodup → Shape.okPayloads ps = true → i < ds.length →
      validVariant ps i v = true → fitsVariant ps i v = true →
      (rest = [] ∨ Shape.zstAny ps = false) →
      ∃ d X, d ∈ ds ∧ encodeVariant ds ps i v = d :: X
        ∧ viewVariant m ds ps k d (X ++ rest) = .ok (.variant (k + i) v) := by
  induction ps with
  | nil => intro ds i v rest k _ _ _ _ hv; simp [validVariant] at hv
  | cons p ps ihp =>
    intro ds i v rest k hlen hnd hok hi hv hf hz
    cases ds with
    | nil => simp at hi
    | cons d ds =>
      simp only [Shape.okPayloads, Bool.and_eq_true] at hok
      cases i with
      | zero =>
        simp only [validVariant] at hv
        simp only [fitsVariant] at hf
        have hz' : rest = [] ∨ p.zst = false := by
          rcases hz with h | h
          · exact Or.inl h
          · exact Or.inr (zstAny_false_mem _ h p (by simp))
        have := ih p (by simp) m false true hok.1 v rest hv hf hz'
        refine ⟨d, encode p v, by simp, by simp [encodeVariant], ?_⟩
        simp [viewVariant, this]
      | succ i =>
        simp only [validVariant] at hv
        simp only [fitsVariant] at hf
        have hnd' := List.nodup_cons.1 hnd
        have hz' : rest = [] ∨ Shape.zstAny ps = false := by
          rcases hz with h | h
          · exact Or.inl h
          · simp only [Shape.zstAny, Bool.or_eq_false_iff] at h; exact Or.inr h.2
        obtain ⟨d', X, hmem, henc, hview⟩ := ihp (fun x hx => ih x (by simp [hx])) ds i v rest (k + 1)
          (by simpa using hlen) hnd'.2 hok.2 (by simpa using hi) hv hf hz'
        have hne : d' ≠ d := fun h => hnd'.1 (h ▸ hmem)
        refine ⟨d', X, by simp [hmem], by simp [encodeVariant, henc], ?_⟩
        simp only [viewVariant, if_neg hne, hview]
        congr 2; omega

theorem viewRT_all (s : Shape) : ViewRT s := by
  induction s using Shape.induct' with
  | fixed f =>
    intro m top inEnum hok v rest hv hf hz
    cases v <;> simp [valid] at hv
    rename_i l
    simp only [encode, view, rawSlice_prefix l rest f.size hv.1.1]
  | list e lw =>
    intro m top inEnum hok v rest hv hf hz
    cases v <;> simp [valid] at hv
    rename_i es
    simp only [fits, Bool.and_eq_true, decide_eq_true_eq] at hf
    have hw : ∀ x ∈ es, x.length = e.size := fun x hx => (hv x hx).1.1
    simp only [encode, view, listParts_encode e.size lw es rest hw hf.1]
    have : es.all e.valid = true := by
      simp only [List.all_eq_true]; intro x hx; exact (hv x hx).1.2
    simp [this]
  | set e lw =>
    intro m top inEnum hok v rest hv hf hz
    cases v <;> simp [valid] at hv
    rename_i es
    simp only [fits, Bool.and_eq_true, decide_eq_true_eq] at hf
    have hw : ∀ x ∈ es, x.length = e.size := fun x hx => (hv.1 x hx).1.1
    simp only [encode, view, listParts_encode e.size lw es rest hw hf.1]
    have : es.all e.valid = true := by
      simp only [List.all_eq_true]; intro x hx; exact (hv.1 x hx).1.2
    simp [this]
  | map kw val lw =>
    intro m top inEnum hok v rest hv hf hz
    cases v <;> simp [valid] at hv
    rename_i es
    simp only [fits, Bool.and_eq_true, decide_eq_true_eq] at hf
    have hw : ∀ x ∈ es, x.length = kw + val.size := fun x hx => (hv.1 x hx).1.1
    simp only [encode, view, listParts_encode (kw + val.size) lw es rest hw hf.1]
    have : es.all (fun x => val.valid (x.drop kw)) = true := by
      simp only [List.all_eq_true]; intro x hx; exact (hv.1 x hx).1.2
    simp [this]
  | str lw =>
    intro m top inEnum hok v rest hv hf hz
    cases v <;> simp [valid] at hv
    rename_i l
    simp only [fits, Bool.and_eq_true, decide_eq_true_eq] at hf
    have hes : (l.map (fun b => [b])).flatten = l := flatten_singletons l
    have hw : ∀ x ∈ l.map (fun b => [b]), x.length = 1 := by
      intro x hx; simp only [List.mem_map] at hx; obtain ⟨b, _, rfl⟩ := hx; rfl
    have hl : (l.map (fun b => [b])).length = l.length := by simp
    have := listParts_encode 1 lw (l.map (fun b => [b])) rest hw (by rw [hl]; exact hf.1)
    rw [hes, hl] at this
    simp only [encode, view, this, hes, hv.1]
    simp
  | rem =>
    intro m top inEnum hok v rest hv hf hz
    cases v <;> simp [valid] at hv
    rename_i l
    have hr : rest = [] := by simpa [Shape.zst] using hz
    subst hr
    simp [encode, view]
  | ulist e ih =>
    intro m top inEnum hok v rest hv hf hz
    cases v <;> simp [valid] at hv
    rename_i vs
    simp only [Shape.okAux, Bool.and_eq_true, Bool.not_eq_true'] at hok
    simp only [fits, Bool.and_eq_true, decide_eq_true_eq, List.all_eq_true] at hf
    have hsizes : vs.map (fun v => (encode e v).length) = vs.map (size e) := by
      apply List.map_congr_left; intro x hx; exact encode_size_all e x (hv x hx)
    let items : List (List Nat × List Nat) := vs.map (fun v => (([] : List Nat), encode e v))
    have hitems2len : items.map (·.2.length) = vs.map (size e) := by
      simp only [items, List.map_map]; rw [← hsizes]; apply List.map_congr_left; intro x _; rfl
    have hitems2 : items.map (·.2) = vs.map (encode e) := by
      simp only [items, List.map_map]; apply List.map_congr_left; intro x _; rfl
    have hk : ∀ it ∈ items, it.1.length = 0 := by
      intro it hit; simp only [items, List.mem_map] at hit; obtain ⟨x, _, rfl⟩ := hit; rfl
    have hn : items.length < Shape.u32Lim := by simpa [items] using hf.1.1
    have hs : (items.map (·.2.length)).sum < Shape.u32Lim := by rw [hitems2len]; exact hf.1.2
    rw [encode_ulist_eq]
    have hp := ulistParts_encode 0 items rest hk hn hs
    simp only [view]
    rw [show (4 : Nat) = 4 + 0 from rfl, hp]
    simp only [tblParsed_fst]
    have hel := elems_encoded (if m = .getMut then .suffix else .exact) (if m = .iter then .oob else .panic)
      (decide (m = .iter)) (extent e) (view m e)
      (vs.map (fun v => (encode e v, v)))
      (by
        intro it hit rest'
        simp only [List.mem_map] at hit
        obtain ⟨x, hx, rfl⟩ := hit
        have h1 := roundTrip_all e false false hok.1 x rest' (hv x hx) (hf.2 x hx) (Or.inr hok.2)
        have h2 := ih m false false hok.1 x rest' (hv x hx) (hf.2 x hx) (Or.inr hok.2)
        exact ⟨⟨_, h1.1⟩, h2⟩) []
    simp only [List.nil_append, List.length_nil, Nat.zero_add, List.map_map] at hel
    have e1 : (vs.map ((fun x : List Nat × Val => x.1) ∘ fun v => (encode e v, v))) = vs.map (encode e) := by
      apply List.map_congr_left; intro x _; rfl
    have e2 : (vs.map ((fun x : List Nat × Val => x.1.length) ∘ fun v => (encode e v, v)))
        = vs.map (size e) := by
      rw [← hsizes]; apply List.map_congr_left; intro x _; rfl
    have e3 : (vs.map ((fun x : List Nat × Val => x.2) ∘ fun v => (encode e v, v))) = vs := by
      conv => rhs; rw [← List.map_id vs]
      apply List.map_congr_left; intro x _; rfl
    rw [e1, e2, e3] at hel
    have hdl : (items.map (·.2)).flatten.length = (vs.map (size e)).sum := by
      rw [hitems2, sum_map_length_flatten, List.map_map]; exact congrArg List.sum hsizes
    rw [hdl, hitems2len, hitems2, hel]
  | umap kw e ih =>
    intro m top inEnum hok v rest hv hf hz
    cases v <;> simp [valid] at hv
    rename_i es
    simp only [Shape.okAux, Bool.and_eq_true, Bool.not_eq_true', decide_eq_true_eq] at hok
    simp only [fits, Bool.and_eq_true, decide_eq_true_eq, List.all_eq_true] at hf
    have hsizes : es.map (fun kv => (encode e kv.2).length) = es.map (fun kv => size e kv.2) := by
      apply List.map_congr_left; intro x hx; exact encode_size_all e x.2 (hv.1 x.1 x.2 hx).2
    let items : List (List Nat × List Nat) := es.map (fun kv => (kv.1, encode e kv.2))
    have hitems2len : items.map (·.2.length) = es.map (fun kv => size e kv.2) := by
      simp only [items, List.map_map]; rw [← hsizes]; apply List.map_congr_left; intro x _; rfl
    have hitems2 : items.map (·.2) = es.map (fun kv => encode e kv.2) := by
      simp only [items, List.map_map]; apply List.map_congr_left; intro x _; rfl
    have hitems1 : items.map (·.1) = es.map (·.1) := by
      simp only [items, List.map_map]; apply List.map_congr_left; intro x _; rfl
    have hk : ∀ it ∈ items, it.1.length = kw := by
      intro it hit; simp only [items, List.mem_map] at hit; obtain ⟨x, hx, rfl⟩ := hit
      exact (hv.1 x.1 x.2 hx).1.1
    have hn : items.length < Shape.u32Lim := by simpa [items] using hf.1.1
    have hs : (items.map (·.2.length)).sum < Shape.u32Lim := by rw [hitems2len]; exact hf.1.2
    rw [encode_umap_eq]
    have hp := ulistParts_encode kw items rest hk hn hs
    simp only [view, Shape.entryW]
    rw [hp]
    simp only [tblParsed_fst, tblParsed_snd]
    have hel := elems_encoded (if m = .getMut then .suffix else .exact) (if m = .iter then .oob else .panic)
      (decide (m = .iter)) (extent e) (view m e)
      (es.map (fun kv => (encode e kv.2, kv.2)))
      (by
        intro it hit rest'
        simp only [List.mem_map] at hit
        obtain ⟨x, hx, rfl⟩ := hit
        have h1 := roundTrip_all e false false hok.1.2 x.2 rest' (hv.1 x.1 x.2 hx).2 (hf.2 x hx) (Or.inr hok.2)
        have h2 := ih m false false hok.1.2 x.2 rest' (hv.1 x.1 x.2 hx).2 (hf.2 x hx) (Or.inr hok.2)
        exact ⟨⟨_, h1.1⟩, h2⟩) []
    simp only [List.nil_append, List.length_nil, Nat.zero_add, List.map_map] at hel
    have e1 : (es.map ((fun x : List Nat × Val => x.1) ∘ fun kv => (encode e kv.2, kv.2)))
        = es.map (fun kv => encode e kv.2) := by
      apply List.map_congr_left; intro x _; rfl
    have e2 : (es.map ((fun x : List Nat × Val => x.1.length) ∘ fun kv => (encode e kv.2, kv.2)))
        = es.map (fun kv => size e kv.2) := by
      rw [← hsizes]; apply List.map_congr_left; intro x _; rfl
    have e3 : (es.map ((fun x : List Nat × Val => x.2) ∘ fun kv : List Nat × Val => (encode e kv.2, kv.2)))
        = es.map (·.2) := by
      apply List.map_congr_left; intro x _; rfl
    rw [e1, e2, e3] at hel
    have hdl : (items.map (·.2)).flatten.length = (es.map (fun kv => size e kv.2)).sum := by
      rw [hitems2, sum_map_length_flatten, List.map_map]; exact congrArg List.sum hsizes
    rw [hdl, hitems2len, hitems2, hel, hitems1]
    have hzip : (es.map (·.1)).zip (es.map (·.2)) = es := zip_fst_snd es
    simp only [hzip]
  | struct sized fs ih =>
    intro m top inEnum hok v rest hv hf hz
    cases v <;> simp [valid] at hv
    rename_i sz vs
    simp only [Shape.okAux, Bool.and_eq_true, Bool.not_eq_true', Bool.or_eq_true,
      decide_eq_true_eq] at hok
    simp only [fits] at hf
    have hz' : rest = [] ∨ Shape.zstLast false fs = false := by simpa [Shape.zst] using hz
    have hfl := viewRT_fields fs ih m hok.2 vs rest hv.2 hf hz'
    have hdrop : (sz ++ (encodeFields fs vs ++ rest)).drop (Fixed.sizeList sized)
        = encodeFields fs vs ++ rest := List.drop_left' hv.1.1.1
    simp only [encode, view, List.append_assoc]
    rw [rawSlice_prefix sz _ _ hv.1.1.1]
    simp only [hdrop, hfl]
  | enum ds ps ih =>
    intro m top inEnum hok v rest hv hf hz
    cases v <;> simp [valid] at hv
    rename_i i p
    simp only [Shape.okAux, Bool.and_eq_true, Bool.not_eq_true', beq_iff_eq, decide_eq_true_eq] at hok
    simp only [fits] at hf
    have hz' : rest = [] ∨ Shape.zstAny ps = false := by simpa [Shape.zst] using hz
    obtain ⟨d, X, _, henc, hview⟩ := viewRT_variant ps ih m ds i p rest 0 hok.1.1.1.1
      hok.1.2 hok.2 hv.1 hv.2 hf hz'
    simp only [encode, henc, view, List.cons_append, hview, Nat.zero_add]
  | unit =>
    intro m top inEnum hok v rest hv hf hz
    cases v <;> simp [valid] at hv
    simp [view]
  | disc d inner ih =>
    intro m top inEnum hok v rest hv hf hz
    simp only [Shape.okAux, Bool.and_eq_true, Bool.not_eq_true'] at hok
    have hv' : valid inner v = true := by cases v <;> simpa [valid] using hv
    have hf' : fits inner v = true := by cases v <;> simpa [fits] using hf
    have e1 : encode (.disc d inner) v = d ++ encode inner v := by cases v <;> rfl
    have hz' : rest = [] ∨ inner.zst = false := by simpa [Shape.zst] using hz
    have := ih m false false hok.2 v rest hv' hf' hz'
    have hdrop : (d ++ (encode inner v ++ rest)).drop d.length = encode inner v ++ rest :=
      List.drop_left' rfl
    simp only [e1, view, List.append_assoc, hdrop, this]

end Unsized
