import Unsized.AccessStoreAll
/-!
# Frame with the typed stores: replaying the COMPLETE write footprint on `data ++ slack`
-/
namespace Unsized.Machine
open Common Unsized Unsized.Text

/-- Replaying events that pass `evsOkS` on an allocation of `cap` bytes changes no byte at an index
`≥ maxLen` (the largest data length during the op), keeps the allocation's size, and ends with the data
length the reallocs announce. -/
theorem frame_coreS (cap : Nat) (evs : List EvS) : ∀ (mem : List Nat) (len : Nat),
    mem.length = cap → len ≤ cap → evsOkS cap len evs = true →
    (execEvsS (mem, len) evs).1.length = cap ∧
    (execEvsS (mem, len) evs).1.drop (maxLen len (rawOf evs)) = mem.drop (maxLen len (rawOf evs)) ∧
    (execEvsS (mem, len) evs).2 = lenAfter len (rawOf evs) := by
  induction evs with
  | nil => intro mem len hm _ _; exact ⟨hm, rfl, rfl⟩
  | cons e es ih =>
    intro mem len hm hl hok
    cases e with
    | store o v =>
      simp only [evsOkS, Bool.and_eq_true, decide_eq_true_eq] at hok
      have hlen : (wr mem o v).length = cap := by rw [wr_length' _ _ _ (by omega)]; exact hm
      obtain ⟨i1, i2, i3⟩ := ih (wr mem o v) len hlen hl hok.2
      have hge := maxLen_ge (rawOf es) len
      refine ⟨by simpa [execEvsS, execEvS] using i1, ?_, by simpa [execEvsS, execEvS] using i3⟩
      simp only [execEvsS, List.foldl_cons, execEvS, rawOf_store] at i2 ⊢
      rw [i2]
      exact wr_drop mem o v _ (by omega) (by omega)
    | raw e =>
      cases e with
      | call =>
        simp only [evsOkS] at hok
        simpa [execEvsS, execEvS, execEv, maxLen, lenAfter] using ih mem len hm hl hok
      | notify s n a b =>
        simp only [evsOkS] at hok
        simpa [execEvsS, execEvS, execEv, maxLen, lenAfter] using ih mem len hm hl hok
      | move d s n =>
        simp only [evsOkS, Bool.and_eq_true, decide_eq_true_eq] at hok
        obtain ⟨⟨h1, h2⟩, h3⟩ := hok
        have hlen : (memmove mem d s n).length = cap := by rw [memmove_length mem d s n (by omega)]; exact hm
        obtain ⟨i1, i2, i3⟩ := ih (memmove mem d s n) len hlen hl h3
        have hge := maxLen_ge (rawOf es) len
        refine ⟨by simpa [execEvsS, execEvS, execEv] using i1, ?_, by simpa [execEvsS, execEvS, execEv, lenAfter] using i3⟩
        simp only [execEvsS, List.foldl_cons, execEvS, execEv, rawOf_raw, maxLen] at i2 ⊢
        rw [i2]
        exact memmove_drop mem d s n _ (by omega) (by omega)
      | realloc o n ok =>
        cases ok with
        | false =>
          simp only [evsOkS] at hok
          obtain ⟨i1, i2, i3⟩ := ih mem len hm hl hok
          have hge := maxLen_ge (rawOf es) len
          refine ⟨by simpa [execEvsS, execEvS, execEv] using i1, ?_, by simpa [execEvsS, execEvS, execEv, lenAfter] using i3⟩
          simp only [execEvsS, List.foldl_cons, execEvS, execEv, rawOf_raw, maxLen] at i2 ⊢
          have hmx : max len (maxLen len (rawOf es)) = maxLen len (rawOf es) := Nat.max_eq_right hge
          simp only [Bool.false_eq_true, ↓reduceIte] at i2 ⊢
          rw [hmx]; exact i2
        | true =>
          simp only [evsOkS, ↓reduceIte, Bool.and_eq_true, decide_eq_true_eq] at hok
          obtain ⟨hn, h3⟩ := hok
          have hge := maxLen_ge (rawOf es) n
          by_cases hgrow : len < n
          · have hw : (wr mem len (List.replicate (n - len) 0)).length = cap := by
              rw [wr_length' _ _ _ (by simp; omega)]; exact hm
            obtain ⟨i1, i2, i3⟩ := ih _ n hw hn h3
            refine ⟨by simpa [execEvsS, execEvS, execEv, hgrow] using i1, ?_,
              by simpa [execEvsS, execEvS, execEv, lenAfter, hgrow] using i3⟩
            simp only [execEvsS, List.foldl_cons, execEvS, execEv, rawOf_raw, maxLen, hgrow, ↓reduceIte] at i2 ⊢
            have := congrArg (List.drop (max len (maxLen n (rawOf es)) - maxLen n (rawOf es))) i2
            rw [List.drop_drop, List.drop_drop] at this
            have e1 : maxLen n (rawOf es) + (max len (maxLen n (rawOf es)) - maxLen n (rawOf es))
                = max len (maxLen n (rawOf es)) := by omega
            rw [e1] at this
            rw [this]
            exact wr_drop mem len _ _ (by simp; omega) (by omega)
          · obtain ⟨i1, i2, i3⟩ := ih mem n hm hn h3
            refine ⟨by simpa [execEvsS, execEvS, execEv, hgrow] using i1, ?_,
              by simpa [execEvsS, execEvS, execEv, lenAfter, hgrow] using i3⟩
            simp only [execEvsS, List.foldl_cons, execEvS, execEv, rawOf_raw, maxLen, hgrow, ↓reduceIte] at i2 ⊢
            have := congrArg (List.drop (max len (maxLen n (rawOf es)) - maxLen n (rawOf es))) i2
            rw [List.drop_drop, List.drop_drop] at this
            have e1 : maxLen n (rawOf es) + (max len (maxLen n (rawOf es)) - maxLen n (rawOf es))
                = max len (maxLen n (rawOf es)) := by omega
            rw [e1] at this
            exact this

end Unsized.Machine
