import Unsized.CodecLemmas
/-!
# Sorted insertion (`BTreeSet`/`BTreeMap` collection) facts
-/
namespace Unsized
open Common

theorem insKey_append (kw : Nat) (x : List Nat) (acc : List (List Nat))
    (h : ∀ y ∈ acc, keyOf kw y < keyOf kw x) : insKey kw x acc = acc ++ [x] := by
  induction acc with
  | nil => rfl
  | cons y ys ih =>
    have hy := h y (by simp)
    simp only [insKey]
    rw [if_neg (by omega), if_neg (by omega), ih (fun z hz => h z (by simp [hz]))]
    rfl

theorem foldl_insKey_sorted (kw : Nat) (es acc : List (List Nat))
    (h : ((acc ++ es).map (keyOf kw)).Pairwise (· < ·)) :
    es.foldl (fun acc x => insKey kw x acc) acc = acc ++ es := by
  induction es generalizing acc with
  | nil => simp
  | cons x es ih =>
    simp only [List.foldl_cons]
    have hx : ∀ y ∈ acc, keyOf kw y < keyOf kw x := by
      intro y hy
      rw [List.map_append, List.pairwise_append] at h
      exact h.2.2 _ (List.mem_map_of_mem hy) _ (by simp)
    rw [insKey_append kw x acc hx]
    rw [ih (acc ++ [x]) (by simpa using h)]
    simp

theorem fromEntries_sorted (kw : Nat) (es : List (List Nat))
    (h : strictKeys (es.map (keyOf kw)) = true) : fromEntries kw es = es := by
  unfold fromEntries
  have := foldl_insKey_sorted kw es [] (by simpa [strictKeys] using h)
  simpa using this

theorem insKV_append {α : Type} (k : List Nat) (v : α) (acc : List (List Nat × α))
    (h : ∀ y ∈ acc, rdLE y.1 < rdLE k) : insKV k v acc = acc ++ [(k, v)] := by
  induction acc with
  | nil => rfl
  | cons y ys ih =>
    have hy := h y (by simp)
    simp only [insKV]
    rw [if_neg (by omega), if_neg (by omega), ih (fun z hz => h z (by simp [hz]))]
    rfl

theorem foldl_insKV_sorted {α : Type} (es acc : List (List Nat × α))
    (h : ((acc ++ es).map (fun kv => rdLE kv.1)).Pairwise (· < ·)) :
    es.foldl (fun acc kv => insKV kv.1 kv.2 acc) acc = acc ++ es := by
  induction es generalizing acc with
  | nil => simp
  | cons x es ih =>
    simp only [List.foldl_cons]
    have hx : ∀ y ∈ acc, rdLE y.1 < rdLE x.1 := by
      intro y hy
      rw [List.map_append, List.pairwise_append] at h
      exact h.2.2 _ (List.mem_map_of_mem (f := fun kv => rdLE kv.1) hy) _ (by simp)
    rw [insKV_append x.1 x.2 acc hx]
    rw [ih (acc ++ [x]) (by simpa using h)]
    simp

theorem fromKVs_sorted {α : Type} (es : List (List Nat × α))
    (h : strictKeys (es.map (fun kv => rdLE kv.1)) = true) : fromKVs es = es := by
  unfold fromKVs
  have := foldl_insKV_sorted es [] (by simpa [strictKeys] using h)
  simpa using this

/-! ### Insertion keeps the keys strictly sorted (what `BTreeMap`/`BTreeSet` guarantee) -/

theorem insKey_mem (kw : Nat) (x : List Nat) (l : List (List Nat)) :
    ∀ z ∈ insKey kw x l, z = x ∨ z ∈ l := by
  induction l with
  | nil => intro z hz; simp [insKey] at hz; exact Or.inl hz
  | cons y ys ih =>
    intro z hz
    simp only [insKey] at hz
    split at hz
    · simp at hz; rcases hz with h | h | h
      · exact Or.inl h
      · exact Or.inr (by simp [h])
      · exact Or.inr (by simp [h])
    · split at hz
      · simp at hz; rcases hz with h | h
        · exact Or.inl h
        · exact Or.inr (by simp [h])
      · simp at hz; rcases hz with h | h
        · exact Or.inr (by simp [h])
        · rcases ih z h with h | h
          · exact Or.inl h
          · exact Or.inr (by simp [h])

theorem insKey_pairwise (kw : Nat) (x : List Nat) (l : List (List Nat))
    (h : (l.map (keyOf kw)).Pairwise (· < ·)) : ((insKey kw x l).map (keyOf kw)).Pairwise (· < ·) := by
  induction l with
  | nil => simp [insKey]
  | cons y ys ih =>
    simp only [List.map_cons, List.pairwise_cons] at h
    simp only [insKey]
    split
    · rename_i hlt
      simp only [List.map_cons, List.pairwise_cons]
      refine ⟨?_, h⟩
      intro a ha
      simp only [List.mem_cons] at ha
      rcases ha with ha | ha
      · omega
      · have := h.1 a ha; omega
    · split
      · rename_i hnlt heq
        simp only [List.map_cons, List.pairwise_cons]
        refine ⟨?_, h.2⟩
        intro a ha; have := h.1 a ha; omega
      · rename_i hnlt hne
        simp only [List.map_cons, List.pairwise_cons]
        refine ⟨?_, ih h.2⟩
        intro a ha
        simp only [List.mem_map] at ha
        obtain ⟨z, hz, rfl⟩ := ha
        rcases insKey_mem kw x ys z hz with hzx | hzy
        · subst hzx; omega
        · exact h.1 _ (List.mem_map_of_mem hzy)

theorem fromEntries_pairwise (kw : Nat) (es : List (List Nat)) :
    strictKeys ((fromEntries kw es).map (keyOf kw)) = true := by
  unfold fromEntries
  have : ∀ acc : List (List Nat), (acc.map (keyOf kw)).Pairwise (· < ·) →
      ((es.foldl (fun acc x => insKey kw x acc) acc).map (keyOf kw)).Pairwise (· < ·) := by
    induction es with
    | nil => intro acc h; simpa using h
    | cons x es ih => intro acc h; exact ih _ (insKey_pairwise kw x acc h)
  simpa [strictKeys] using this [] (by simp)

theorem fromEntries_mem (kw : Nat) (es : List (List Nat)) : ∀ z ∈ fromEntries kw es, z ∈ es := by
  unfold fromEntries
  have : ∀ acc : List (List Nat), ∀ z ∈ es.foldl (fun acc x => insKey kw x acc) acc, z ∈ acc ∨ z ∈ es := by
    induction es with
    | nil => intro acc z hz; exact Or.inl (by simpa using hz)
    | cons x es ih =>
      intro acc z hz
      rcases ih _ z hz with h | h
      · rcases insKey_mem kw x acc z h with h | h
        · exact Or.inr (by simp [h])
        · exact Or.inl h
      · exact Or.inr (by simp [h])
  intro z hz
  rcases this [] z hz with h | h
  · simp at h
  · exact h

theorem insKV_mem {α : Type} (k : List Nat) (v : α) (l : List (List Nat × α)) :
    ∀ z ∈ insKV k v l, z = (k, v) ∨ z ∈ l := by
  induction l with
  | nil => intro z hz; simp [insKV] at hz; exact Or.inl hz
  | cons y ys ih =>
    intro z hz
    simp only [insKV] at hz
    split at hz
    · simp at hz; rcases hz with h | h | h
      · exact Or.inl h
      · exact Or.inr (by simp [h])
      · exact Or.inr (by simp [h])
    · split at hz
      · simp at hz; rcases hz with h | h
        · exact Or.inl h
        · exact Or.inr (by simp [h])
      · simp at hz; rcases hz with h | h
        · exact Or.inr (by simp [h])
        · rcases ih z h with h | h
          · exact Or.inl h
          · exact Or.inr (by simp [h])

theorem insKV_pairwise {α : Type} (k : List Nat) (v : α) (l : List (List Nat × α))
    (h : (l.map (fun kv => rdLE kv.1)).Pairwise (· < ·)) :
    ((insKV k v l).map (fun kv => rdLE kv.1)).Pairwise (· < ·) := by
  induction l with
  | nil => simp [insKV]
  | cons y ys ih =>
    simp only [List.map_cons, List.pairwise_cons] at h
    simp only [insKV]
    split
    · rename_i hlt
      simp only [List.map_cons, List.pairwise_cons]
      refine ⟨?_, h⟩
      intro a ha
      simp only [List.mem_cons] at ha
      rcases ha with ha | ha
      · omega
      · have := h.1 a ha; omega
    · split
      · rename_i hnlt heq
        simp only [List.map_cons, List.pairwise_cons]
        refine ⟨?_, h.2⟩
        intro a ha; have := h.1 a ha; omega
      · rename_i hnlt hne
        simp only [List.map_cons, List.pairwise_cons]
        refine ⟨?_, ih h.2⟩
        intro a ha
        simp only [List.mem_map] at ha
        obtain ⟨z, hz, rfl⟩ := ha
        rcases insKV_mem k v ys z hz with hzx | hzy
        · subst hzx; simp; omega
        · exact h.1 _ (List.mem_map_of_mem (f := fun kv => rdLE kv.1) hzy)

theorem fromKVs_pairwise {α : Type} (es : List (List Nat × α)) :
    strictKeys ((fromKVs es).map (fun kv => rdLE kv.1)) = true := by
  unfold fromKVs
  have : ∀ acc : List (List Nat × α), (acc.map (fun kv => rdLE kv.1)).Pairwise (· < ·) →
      ((es.foldl (fun acc kv => insKV kv.1 kv.2 acc) acc).map (fun kv => rdLE kv.1)).Pairwise (· < ·) := by
    induction es with
    | nil => intro acc h; simpa using h
    | cons x es ih => intro acc h; exact ih _ (insKV_pairwise x.1 x.2 acc h)
  simpa [strictKeys] using this [] (by simp)

theorem fromKVs_mem {α : Type} (es : List (List Nat × α)) : ∀ z ∈ fromKVs es, z ∈ es := by
  unfold fromKVs
  have : ∀ acc : List (List Nat × α),
      ∀ z ∈ es.foldl (fun acc kv => insKV kv.1 kv.2 acc) acc, z ∈ acc ∨ z ∈ es := by
    induction es with
    | nil => intro acc z hz; exact Or.inl (by simpa using hz)
    | cons x es ih =>
      intro acc z hz
      rcases ih _ z hz with h | h
      · rcases insKV_mem x.1 x.2 acc z h with h | h
        · exact Or.inr (by simp [h])
        · exact Or.inl h
      · exact Or.inr (by simp [h])
  intro z hz
  rcases this [] z hz with h | h
  · simp at h
  · exact h

end Unsized
