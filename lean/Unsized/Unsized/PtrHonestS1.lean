import Unsized.PtrHonestM7
namespace Unsized.Ptr
open Common Unsized Unsized.Text Unsized.Machine Unsized.PtrT Unsized.PtrM

/-- Shapes whose pointer object is itself a leaf pointer, an `UnsizedListPtr` or an enum `start` pointer. -/
def flat0 : Shape → Bool
  | .fixed _ => true
  | .list _ _ => true
  | .rem => true
  | .ulist _ => true
  | .enum _ _ => true
  | _ => false

/-- … or a wrapper struct whose first field is one (`Set`/`Map`/`UnsizedString`/`UnsizedMap` wrap their list; a
`#[unsized_type]` struct with a sized part starts with the `…Sized` pointer). -/
def flat1 : Shape → Bool
  | .set _ _ => true
  | .map _ _ _ => true
  | .str _ => true
  | .umap _ _ => true
  | .struct sized fs => !sized.isEmpty || (match fs with | f :: _ => flat0 f | [] => false)
  | s => flat0 s

/-- **`startOk e`**: `PtrM.startAddr` (the C03 model of `UnsizedType::start_ptr`, which looks two struct levels
deep) is defined on every pointer object of shape `e`. Decidable; true of every leaf / container shape, of
every struct with a sized part, and of structs without one whose first field is, up to two levels, such a
shape. The only shapes it excludes are three-deep nestings of sized-part-less structs. -/
def startOk : Shape → Bool
  | .struct sized fs => !sized.isEmpty || (match fs with | f :: _ => flat1 f | [] => false)
  | s => flat1 s

theorem flat0_tree (e : Shape) (h : flat0 e = true) (x : Val) (B : Nat) :
    (∃ k a, treeOf e x B = .leaf k a) ∨ (∃ w a n lo hi i p, treeOf e x B = .ulist w a n lo hi i p)
      ∨ (∃ a i p, treeOf e x B = .start a i p) := by
  cases e <;> simp only [flat0] at h <;> try (cases h)
  all_goals cases x <;> simp [treeOf]

theorem flat1_start (e : Shape) (h : flat1 e = true) (x : Val) (B : Nat) (hv : valid e x = true) :
    (∃ k a, treeOf e x B = .leaf k a) ∨ (∃ w a n lo hi i p, treeOf e x B = .ulist w a n lo hi i p)
      ∨ (∃ a i p, treeOf e x B = .start a i p)
      ∨ (∃ k a r, treeOf e x B = .node (.leaf k a :: r))
      ∨ (∃ w a n lo hi i p r, treeOf e x B = .node (.ulist w a n lo hi i p :: r))
      ∨ (∃ a i p r, treeOf e x B = .node (.start a i p :: r)) := by
  cases e with
  | «struct» sized fs =>
    cases x <;> simp only [valid] at hv <;> try (cases hv)
    rename_i sz vs
    simp only [Bool.and_eq_true] at hv
    simp only [flat1, Bool.or_eq_true, Bool.not_eq_true'] at h
    by_cases hs : sized.isEmpty = true
    · rcases h with h | h
      · rw [hs] at h; cases h
      · cases fs with
        | nil => cases h
        | cons f fs' =>
          simp only at h
          cases vs with
          | nil => simp [validFields] at hv
          | cons y ys =>
            simp only [treeOf, hs, if_true, treesOf]
            rcases flat0_tree f h y B with ⟨k, a, hh⟩ | ⟨w, a, n, lo, hi, i, p, hh⟩ | ⟨a, i, p, hh⟩
            · rw [hh]; simp
            · rw [hh]; simp
            · rw [hh]; simp
    · simp only [treeOf, hs]; simp
  | set _ _ => cases x <;> simp [treeOf]
  | map _ _ _ => cases x <;> simp [treeOf]
  | str _ => cases x <;> simp [treeOf]
  | umap _ _ => cases x <;> simp [valid] at hv <;> simp [treeOf]
  | fixed f =>
    rcases flat0_tree _ (by simpa [flat1] using h) x B with h | h | h
    · exact Or.inl h
    · exact Or.inr (Or.inl h)
    · exact Or.inr (Or.inr (Or.inl h))
  | list _ _ =>
    rcases flat0_tree _ (by simpa [flat1] using h) x B with h | h | h
    · exact Or.inl h
    · exact Or.inr (Or.inl h)
    · exact Or.inr (Or.inr (Or.inl h))
  | rem =>
    rcases flat0_tree _ (by simpa [flat1] using h) x B with h | h | h
    · exact Or.inl h
    · exact Or.inr (Or.inl h)
    · exact Or.inr (Or.inr (Or.inl h))
  | ulist _ =>
    rcases flat0_tree _ (by simpa [flat1] using h) x B with h | h | h
    · exact Or.inl h
    · exact Or.inr (Or.inl h)
    · exact Or.inr (Or.inr (Or.inl h))
  | enum _ _ =>
    rcases flat0_tree _ (by simpa [flat1] using h) x B with h | h | h
    · exact Or.inl h
    · exact Or.inr (Or.inl h)
    · exact Or.inr (Or.inr (Or.inl h))
  | unit => simp [flat1, flat0] at h
  | disc _ _ => simp [flat1, flat0] at h

/-- `startOk` discharges the side condition of `UnsizedMap::insert` on an existing key. -/
theorem startOk_start (e : Shape) (h : startOk e = true) (x : Val) (B : Nat) (hv : valid e x = true) :
    ∃ a, startAddr (treeOf e x B) = some a := by
  have key : ∀ e, flat1 e = true → ∀ x B, valid e x = true → ∃ a, startAddr (treeOf e x B) = some a := by
    intro e h x B hv
    rcases flat1_start e h x B hv with ⟨k, a, hh⟩ | ⟨w, a, n, lo, hi, i, p, hh⟩ | ⟨a, i, p, hh⟩ | ⟨k, a, r, hh⟩
      | ⟨w, a, n, lo, hi, i, p, r, hh⟩ | ⟨a, i, p, r, hh⟩ <;> rw [hh] <;> exact ⟨_, rfl⟩
  cases e with
  | «struct» sized fs =>
    cases x <;> simp only [valid] at hv <;> try (cases hv)
    rename_i sz vs
    simp only [Bool.and_eq_true] at hv
    simp only [startOk, Bool.or_eq_true, Bool.not_eq_true'] at h
    by_cases hs : sized.isEmpty = true
    · rcases h with h | h
      · rw [hs] at h; cases h
      · cases fs with
        | nil => cases h
        | cons f fs' =>
          simp only at h
          cases vs with
          | nil => simp [validFields] at hv
          | cons y ys =>
            simp only [validFields, Bool.and_eq_true] at hv
            simp only [treeOf, hs, if_true, treesOf]
            rcases flat1_start f h y B hv.2.1 with ⟨k, a, hh⟩ | ⟨w, a, n, lo, hi, i, p, hh⟩ | ⟨a, i, p, hh⟩ | ⟨k, a, r, hh⟩
              | ⟨w, a, n, lo, hi, i, p, r, hh⟩ | ⟨a, i, p, r, hh⟩ <;> rw [hh] <;> exact ⟨_, rfl⟩
    · simp only [treeOf, hs]; exact ⟨_, rfl⟩
  | set _ _ => exact key _ (by simpa [startOk] using h) x B hv
  | map _ _ _ => exact key _ (by simpa [startOk] using h) x B hv
  | str _ => exact key _ (by simpa [startOk] using h) x B hv
  | umap _ _ => exact key _ (by simpa [startOk] using h) x B hv
  | fixed f => exact key _ (by simpa [startOk] using h) x B hv
  | list _ _ => exact key _ (by simpa [startOk] using h) x B hv
  | rem => exact key _ (by simpa [startOk] using h) x B hv
  | ulist _ => exact key _ (by simpa [startOk] using h) x B hv
  | enum _ _ => exact key _ (by simpa [startOk] using h) x B hv
  | unit => exact key _ (by simpa [startOk] using h) x B hv
  | disc _ _ => exact key _ (by simpa [startOk] using h) x B hv

end Unsized.Ptr
