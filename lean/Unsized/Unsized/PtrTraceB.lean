import Unsized.PtrTraceA
namespace Unsized.Ptr
open Common Unsized Unsized.Text Unsized.Machine

theorem listInsertAllT_espec (c : Ctx) (ew lw b idx : Nat) (items : List (List Nat)) (m : Mem) :
    ESpec m b (listInsertAllT c ew lw b idx items m).2 := by
  unfold listInsertAllT
  simp only []
  split
  · exact ESpec.nil m b
  · split
    · exact ESpec.nil m b
    · have := addBytesNT_espec m c b (b + lw + idx * ew) (ew * items.length) (by omega)
      rcases h : m.addBytesNT c b (b + lw + idx * ew) (ew * items.length) with ⟨⟨m1, r⟩, ev⟩
      rw [h] at this
      cases r with
      | error e => exact this
      | ok u => cases u; exact this

theorem listRemoveRangeT_espec (c : Ctx) (ew lw b lo hi : Nat) (m : Mem) :
    ESpec m b (listRemoveRangeT c ew lw b lo hi m).2 := by
  unfold listRemoveRangeT
  simp only []
  split
  · exact ESpec.nil m b
  · split
    · exact ESpec.nil m b
    · have := removeBytesNT_espec m c b (b + lw + lo * ew) (b + lw + hi * ew) (by omega)
      rcases h : m.removeBytesNT c b (b + lw + lo * ew) (b + lw + hi * ew) with ⟨⟨m1, r⟩, ev⟩
      rw [h] at this
      cases r with
      | error e => exact this
      | ok u => cases u; exact this

theorem listPopT_espec (c : Ctx) (ew lw b : Nat) (m : Mem) : ESpec m b (listPopT c ew lw b m).2 := by
  unfold listPopT
  simp only []
  split
  · exact ESpec.nil m b
  · have := listRemoveRangeT_espec c ew lw b (rdN m.bytes b lw - 1) (rdN m.bytes b lw) m
    rcases h : listRemoveRangeT c ew lw b (rdN m.bytes b lw - 1) (rdN m.bytes b lw) m with ⟨⟨m1, r⟩, ev⟩
    rw [h] at this
    cases r with
    | error e => exact this
    | ok u => cases u; exact this

theorem listClearT_espec (c : Ctx) (ew lw b : Nat) (m : Mem) : ESpec m b (listClearT c ew lw b m).2 :=
  listRemoveRangeT_espec c ew lw b 0 _ m

theorem setInsertT_espec (c : Ctx) (ew lw b : Nat) (e : List Nat) (m : Mem) :
    ESpec m b (setInsertT c ew lw b e m).2 := by
  unfold setInsertT
  split
  · exact ESpec.nil m b
  · rename_i i _
    have := listInsertAllT_espec c ew lw b i [e] m
    rcases h : listInsertAllT c ew lw b i [e] m with ⟨⟨m1, r⟩, ev⟩
    rw [h] at this
    cases r with
    | error e => exact this
    | ok u => cases u; exact this

theorem setRemoveT_espec (c : Ctx) (ew lw b : Nat) (e : List Nat) (m : Mem) :
    ESpec m b (setRemoveT c ew lw b e m).2 := by
  unfold setRemoveT
  split
  · exact ESpec.nil m b
  · rename_i i _
    have := listRemoveRangeT_espec c ew lw b i (i + 1) m
    rcases h : listRemoveRangeT c ew lw b i (i + 1) m with ⟨⟨m1, r⟩, ev⟩
    rw [h] at this
    cases r with
    | error e => exact this
    | ok u => cases u; exact this

theorem mapInsertT_espec (c : Ctx) (kw vw lw b : Nat) (k v : List Nat) (m : Mem) :
    ESpec m b (mapInsertT c kw vw lw b k v m).2 := by
  unfold mapInsertT
  simp only []
  split
  · exact ESpec.nil m b
  · rename_i i _
    have := listInsertAllT_espec c (kw + vw) lw b i [k ++ v] m
    rcases h : listInsertAllT c (kw + vw) lw b i [k ++ v] m with ⟨⟨m1, r⟩, ev⟩
    rw [h] at this
    cases r with
    | error e => exact this
    | ok u => cases u; exact this

theorem mapRemoveT_espec (c : Ctx) (kw vw lw b : Nat) (k : List Nat) (m : Mem) :
    ESpec m b (mapRemoveT c kw vw lw b k m).2 := by
  unfold mapRemoveT
  simp only []
  split
  · exact ESpec.nil m b
  · rename_i i _
    have := listRemoveRangeT_espec c (kw + vw) lw b i (i + 1) m
    rcases h : listRemoveRangeT c (kw + vw) lw b i (i + 1) m with ⟨⟨m1, r⟩, ev⟩
    rw [h] at this
    cases r with
    | error e => exact this
    | ok u => cases u; exact this

theorem remSetLenT_espec (c : Ctx) (b n : Nat) (m : Mem) : ESpec m b (remSetLenT c b n m).2 := by
  unfold remSetLenT
  simp only []
  split
  · exact addBytesNT_espec m c b _ _ (by omega)
  · split
    · exact ESpec.nil m b
    · exact removeBytesNT_espec m c b _ _ (by omega)

theorem setDataInnerT_espec (c : Ctx) (t : Shape) (b : Nat) (newBytes : List Nat) (fails : Bool) (m : Mem) :
    ESpec m b (setDataInnerT c t b newBytes fails m).2 := by
  unfold setDataInnerT
  split
  · exact ESpec.nil m b
  · rename_i cur _
    simp only []
    have key : ESpec m b (if cur < newBytes.length then m.addBytesNT c b b (newBytes.length - cur)
        else if newBytes.length < cur then m.removeBytesNT c b b (b + (cur - newBytes.length))
        else ((m, Except.ok ()), [])).2 := by
      split
      · exact addBytesNT_espec m c b b _ (Nat.le_refl _)
      · split
        · exact removeBytesNT_espec m c b b _ (Nat.le_refl _)
        · exact ESpec.nil m b
    generalize (if cur < newBytes.length then m.addBytesNT c b b (newBytes.length - cur)
        else if newBytes.length < cur then m.removeBytesNT c b b (b + (cur - newBytes.length))
        else ((m, Except.ok ()), [])) = x at key ⊢
    rcases x with ⟨⟨m1, r⟩, ev⟩
    cases r with
    | error e => exact key
    | ok u => cases u; simp only []; split <;> exact key

theorem inert_move (d s n : Nat) : Inert [Ev.move d s n] := by
  intro e he; simp at he; subst he; exact ⟨rfl, rfl, rfl⟩

theorem ulistInsertT_espec (c : Ctx) (cw : Nat) (e : Shape) (b idx n : Nat) (init : Init) (key : List Nat) (m : Mem) :
    ESpec m b (ulistInsertT c cw e b idx n init key m).2 := by
  unfold ulistInsertT
  simp only []
  split
  · exact ESpec.nil m b
  · have := addBytesNT_espec m c b (b + 8 + rd32 m.bytes (b + 4) * cw + 4 + ulistOffset cw b idx m.bytes)
      ((initSize e init + cw) * n) (by omega)
    rcases h : m.addBytesNT c b (b + 8 + rd32 m.bytes (b + 4) * cw + 4 + ulistOffset cw b idx m.bytes)
      ((initSize e init + cw) * n) with ⟨⟨m1, r⟩, ev⟩
    rw [h] at this
    cases r with
    | error er => exact this
    | ok u =>
      cases u
      have k2 := this.append_inert (inert_move (b + 8 + idx * cw + n * cw) (b + 8 + idx * cw)
        (b + 8 + rd32 m.bytes (b + 4) * cw + 4 + ulistOffset cw b idx m.bytes - (b + 8 + idx * cw)))
      simp only []
      split
      · exact k2
      · split
        · exact k2
        · split
          · exact k2
          · split
            · exact k2
            · exact k2

theorem ulistClearT_espec (c : Ctx) (cw b : Nat) (m : Mem) : ESpec m b (ulistClearT c cw b m).2 := by
  unfold ulistClearT
  simp only []
  have := removeBytesNT_espec m c b (b + 8 + 4) (b + 8 + rd32 m.bytes (b + 4) * cw + 4 + rd32 m.bytes b) (by omega)
  rcases h : m.removeBytesNT c b (b + 8 + 4) (b + 8 + rd32 m.bytes (b + 4) * cw + 4 + rd32 m.bytes b) with ⟨⟨m1, r⟩, ev⟩
  rw [h] at this
  cases r with
  | error e => exact this
  | ok u => cases u; exact this

theorem wr_take (bs : List Nat) (off : Nat) (v : List Nat) (src : Nat) (h : src ≤ off) (hl : off ≤ bs.length) :
    (wr bs off v).take src = bs.take src := by
  unfold wr
  rw [List.append_assoc, List.take_append_of_le_length (by simp; omega), List.take_take]; congr 1; omega

theorem ulistRemoveRangeT_espec (c : Ctx) (cw b lo hi : Nat) (m : Mem) (hu : UlistOk cw b m.bytes) :
    ESpec m b (ulistRemoveRangeT c cw b lo hi m).2 := by
  unfold ulistRemoveRangeT
  simp only []
  split
  · exact ulistClearT_espec c cw b m
  · split
    · exact ESpec.nil m b
    · rename_i hlo
      split
      · exact ESpec.nil m b
      · rename_i hhi
        simp only [Nat.not_lt] at hlo hhi
        have hso := hu.offs lo
        have hin := hu.inside
        have hm1 : lo * cw ≤ hi * cw := Nat.mul_le_mul_right cw hlo
        have hm2 : hi * cw ≤ rd32 m.bytes (b + 4) * cw := Nat.mul_le_mul_right cw hhi
        have hd : b + 8 + lo * cw + (b + 8 + rd32 m.bytes (b + 4) * cw + 4 + ulistOffset cw b lo m.bytes - (b + 8 + hi * cw))
            ≤ m.bytes.length := by omega
        have hl := memmove_length m.bytes (b + 8 + lo * cw) (b + 8 + hi * cw)
          (b + 8 + rd32 m.bytes (b + 4) * cw + 4 + ulistOffset cw b lo m.bytes - (b + 8 + hi * cw)) hd
        have htk : (memmove m.bytes (b + 8 + lo * cw) (b + 8 + hi * cw)
            (b + 8 + rd32 m.bytes (b + 4) * cw + 4 + ulistOffset cw b lo m.bytes - (b + 8 + hi * cw))).take b
            = m.bytes.take b := by
          unfold memmove; exact wr_take _ _ _ _ (by omega) (by omega)
        generalize hbs : memmove m.bytes (b + 8 + lo * cw) (b + 8 + hi * cw)
          (b + 8 + rd32 m.bytes (b + 4) * cw + 4 + ulistOffset cw b lo m.bytes - (b + 8 + hi * cw)) = bs1 at *
        have h1 := removeBytesNT_espec ({ m with bytes := bs1 } : Mem) c b
          (b + 8 + rd32 m.bytes (b + 4) * cw + 4 + ulistOffset cw b lo m.bytes - cw * (hi - lo))
          (b + 8 + rd32 m.bytes (b + 4) * cw + 4 + ulistOffset cw b hi m.bytes) (by
            have : cw * (hi - lo) ≤ rd32 m.bytes (b + 4) * cw := by
              rw [Nat.mul_comm]; exact Nat.mul_le_mul_right cw (by omega)
            omega)
        have h2 := h1.prepend_inert (m := m) (inert_move (b + 8 + lo * cw) (b + 8 + hi * cw)
          (b + 8 + rd32 m.bytes (b + 4) * cw + 4 + ulistOffset cw b lo m.bytes - (b + 8 + hi * cw))) htk hl
        generalize Mem.removeBytesNT _ c b _ _ = x at *
        rcases x with ⟨⟨m1, r⟩, ev⟩
        cases r with
        | error e => exact h2
        | ok u =>
          cases u
          simp only []
          split <;> exact h2

theorem ulistPopT_espec (c : Ctx) (cw b : Nat) (m : Mem) (hu : UlistOk cw b m.bytes) :
    ESpec m b (ulistPopT c cw b m).2 := by
  unfold ulistPopT
  simp only []
  split
  · exact ESpec.nil m b
  · have h1 := ulistRemoveRangeT_espec c cw b (rd32 m.bytes (b + 4) - 1) (rd32 m.bytes (b + 4)) m hu
    generalize ulistRemoveRangeT c cw b (rd32 m.bytes (b + 4) - 1) (rd32 m.bytes (b + 4)) m = x at *
    rcases x with ⟨⟨m1, r⟩, ev⟩
    cases r with
    | error e => exact h1
    | ok u => cases u; exact h1

/-- `UnsizedMap::insert`: a new key resizes the map itself; an existing key resizes the ELEMENT (`set_from_init`
through `index_exclusive`), source = the element's address. -/
theorem umapInsertT_espec (c : Ctx) (kw : Nat) (e : Shape) (b : Nat) (k : List Nat) (init : Init) (m : Mem) :
    match search (umapKeys kw b m.bytes) (rdLE k) 0 with
    | .at i => ESpec m (b + 8 + rd32 m.bytes (b + 4) * Shape.entryW kw + 4 + rd32 m.bytes (b + 8 + i * Shape.entryW kw))
        (umapInsertT c kw e b k init m).2
    | .ins _ => ESpec m b (umapInsertT c kw e b k init m).2 := by
  unfold umapInsertT
  simp only []
  rcases hs : search (umapKeys kw b m.bytes) (rdLE k) 0 with i | i
  · simp only []
    have h1 := setDataInnerT_espec { c with path := c.path ++ [.elem i] } e
      (b + 8 + rd32 m.bytes (b + 4) * Shape.entryW kw + 4 + rd32 m.bytes (b + 8 + i * Shape.entryW kw))
      (initBytes e init) (initFails e init) m
    generalize setDataInnerT _ e _ (initBytes e init) (initFails e init) m = x at *
    rcases x with ⟨⟨m1, r⟩, ev⟩
    cases r with
    | error er => exact h1
    | ok u => cases u; exact h1
  · simp only []
    have h1 := ulistInsertT_espec c (Shape.entryW kw) e b i 1 init k m
    generalize ulistInsertT c (Shape.entryW kw) e b i 1 init k m = x at *
    rcases x with ⟨⟨m1, r⟩, ev⟩
    cases r with
    | error er => exact h1
    | ok u => cases u; exact h1

/-- The ops that resize at most once (everything but `str_set`, `Set::insert_all`, `Map::insert_all`). -/
def simpleOp : Op → Bool
  | .strSet _ => false
  | .sinsertAll _ => false
  | .minsertAll _ => false
  | _ => true

/-- The source pointer of the op's notification: the node itself, except for `UnsizedMap::insert` on an
existing key (the element). -/
def srcOf (t : Shape) (b : Nat) (op : Op) (m : Mem) : Nat :=
  match t, op with
  | .umap kw _, .uminsert k =>
    match search (umapKeys kw b m.bytes) (rdLE k) 0 with
    | .at i => b + 8 + rd32 m.bytes (b + 4) * Shape.entryW kw + 4 + rd32 m.bytes (b + 8 + i * Shape.entryW kw)
    | .ins _ => b
  | .umap kw _, .uminsertArr k _ =>
    match search (umapKeys kw b m.bytes) (rdLE k) 0 with
    | .at i => b + 8 + rd32 m.bytes (b + 4) * Shape.entryW kw + 4 + rd32 m.bytes (b + 8 + i * Shape.entryW kw)
    | .ins _ => b
  | _, _ => b

theorem unitResT_espec {m : Mem} {src : Nat} {x : Traced Unit} (h : ESpec m src x.2) : ESpec m src (unitResT x).2 := by
  rw [unitResT_snd]; exact h

set_option maxHeartbeats 1000000 in
/-- **Every non-composite op emits at most one notification**, with the node (or, for `UnsizedMap::insert`
on an existing key, the element) as source. -/
theorem applyAtT_espec (c : Ctx) (t : Shape) (b : Nat) (op : Op) (m : Mem) (hs : simpleOp op = true)
    (hu : ∀ cw, ulistCw t = some cw → UlistOk cw b m.bytes) :
    ESpec m (srcOf t b op m) (applyAtT c t b op m).2 := by
  cases op with
  | strSet x => simp [simpleOp] at hs
  | sinsertAll x => simp [simpleOp] at hs
  | minsertAll x => simp [simpleOp] at hs
  | uminsert k =>
    cases t with
    | umap kw e =>
      simp only [applyAtT, srcOf]
      have key := umapInsertT_espec c kw e b k .default m
      rcases hsr : search (umapKeys kw b m.bytes) (rdLE k) 0 with i | i
      · simp only [hsr] at key ⊢
        split
        · exact key
        · exact ESpec.nil m _
      · simp only [hsr] at key ⊢
        split
        · exact key
        · exact ESpec.nil m _
    | _ => simp only [applyAtT, srcOf]; exact ESpec.nil m b
  | uminsertArr k xs =>
    cases t with
    | umap kw e =>
      simp only [applyAtT, srcOf]
      have key := umapInsertT_espec c kw e b k (.array xs) m
      rcases hsr : search (umapKeys kw b m.bytes) (rdLE k) 0 with i | i
      · simp only [hsr] at key ⊢
        split
        · exact key
        · exact ESpec.nil m _
      · simp only [hsr] at key ⊢
        split
        · exact key
        · exact ESpec.nil m _
    | _ => simp only [applyAtT, srcOf]; exact ESpec.nil m b
  | sinsert x =>
    cases t with
    | set e lw =>
      simp only [applyAtT, srcOf]
      split
      · have := setInsertT_espec c e.size lw b x m
        generalize setInsertT c e.size lw b x m = y at *
        rcases y with ⟨⟨m1, r⟩, ev⟩
        cases r <;> exact this
      · exact ESpec.nil m b
    | _ => simp only [applyAtT, srcOf]; exact ESpec.nil m b
  | minsert k x =>
    cases t with
    | map kw v lw =>
      simp only [applyAtT, srcOf]
      split
      · have := mapInsertT_espec c kw v.size lw b k x m
        generalize mapInsertT c kw v.size lw b k x m = y at *
        rcases y with ⟨⟨m1, r⟩, ev⟩
        cases r <;> exact this
      · exact ESpec.nil m b
    | _ => simp only [applyAtT, srcOf]; exact ESpec.nil m b
  | umremove k =>
    cases t with
    | umap kw e =>
      simp only [applyAtT, srcOf]
      split
      · split
        · exact ESpec.nil m b
        · rename_i i _
          have := ulistRemoveRangeT_espec c (Shape.entryW kw) b i (i + 1) m (hu _ rfl)
          generalize ulistRemoveRangeT c (Shape.entryW kw) b i (i + 1) m = y at *
          rcases y with ⟨⟨m1, r⟩, ev⟩
          cases r with
          | error e => exact this
          | ok u => cases u; exact this
      · exact ESpec.nil m b
    | _ => simp only [applyAtT, srcOf]; exact ESpec.nil m b
  | _ =>
    cases t <;> simp only [applyAtT, srcOf] <;> (try split) <;> first
      | exact ESpec.nil m b
      | exact unitResT_espec (setDataInnerT_espec _ _ _ _ _ _)
      | exact unitResT_espec (listInsertAllT_espec _ _ _ _ _ _ _)
      | exact unitResT_espec (listRemoveRangeT_espec _ _ _ _ _ _ _)
      | exact unitResT_espec (listClearT_espec _ _ _ _ _)
      | exact listPopT_espec _ _ _ _ _
      | exact setRemoveT_espec _ _ _ _ _ _
      | exact mapRemoveT_espec _ _ _ _ _ _ _
      | exact unitResT_espec (remSetLenT_espec _ _ _ _)
      | exact unitResT_espec (ulistInsertT_espec _ _ _ _ _ _ _ _ _)
      | exact unitResT_espec (ulistRemoveRangeT_espec _ _ _ _ _ _ (hu _ rfl))
      | exact ulistPopT_espec _ _ _ _ (hu _ rfl)
      | exact unitResT_espec (ulistClearT_espec _ _ _ _)

end Unsized.Ptr
