import Unsized.AccessLemmasBounds
/-!
# Frame: replaying the raw accesses on the allocation never touches a byte at or beyond the largest
data length of the operation; and the replay of the wrapper's primitives reproduces the machine's bytes
-/
namespace Unsized.Machine
open Common Unsized Unsized.Text

theorem wr_drop (bs : List Nat) (off : Nat) (v : List Nat) (k : Nat) (h : off + v.length ≤ k)
    (hb : off ≤ bs.length) : (wr bs off v).drop k = bs.drop k := by
  unfold wr
  rw [List.append_assoc, List.drop_append, List.length_take, Nat.min_eq_left hb]
  have h1 : (bs.take off).drop k = [] := by
    apply List.drop_eq_nil_of_le; simp; omega
  rw [h1, List.nil_append, List.drop_append]
  have h2 : v.drop (k - off) = [] := by
    apply List.drop_eq_nil_of_le; omega
  rw [h2, List.nil_append, List.drop_drop]
  congr 1; omega

theorem wr_length' (bs : List Nat) (off : Nat) (v : List Nat) (h : off + v.length ≤ bs.length) :
    (wr bs off v).length = bs.length := by
  unfold wr; simp only [List.length_append, List.length_take, List.length_drop]; omega

theorem rd_length_le (bs : List Nat) (off n : Nat) : (rd bs off n).length ≤ n := by
  unfold rd; simp only [List.length_take]; omega

theorem memmove_drop (bs : List Nat) (d s n k : Nat) (h : d + n ≤ k) (hb : d + n ≤ bs.length) :
    (memmove bs d s n).drop k = bs.drop k := by
  unfold memmove
  have := rd_length_le bs s n
  exact wr_drop bs d _ k (by omega) (by omega)

theorem maxLen_ge (evs : List Ev) : ∀ len, len ≤ maxLen len evs := by
  induction evs with
  | nil => intro len; exact Nat.le_refl _
  | cons e es ih =>
    intro len
    cases e with
    | realloc o n ok => simp only [maxLen]; omega
    | call => exact ih len
    | move d s n => exact ih len
    | notify s n a b => exact ih len

/-- **Frame (raw accesses).** If the events pass `evsOk` for an allocation of `cap` bytes with current
data length `len ≤ cap`, replaying them changes no byte at an index `≥ maxLen len evs` (the largest
data length during the operation) and keeps the allocation's size. -/
theorem frame_core (cap : Nat) (evs : List Ev) : ∀ (mem : List Nat) (len : Nat),
    mem.length = cap → len ≤ cap → evsOk cap len evs = true →
    (execEvs (mem, len) evs).1.length = cap ∧
    (execEvs (mem, len) evs).1.drop (maxLen len evs) = mem.drop (maxLen len evs) ∧
    (execEvs (mem, len) evs).2 = lenAfter len evs := by
  induction evs with
  | nil => intro mem len hm _ _; exact ⟨hm, rfl, rfl⟩
  | cons e es ih =>
    intro mem len hm hl hok
    cases e with
    | call =>
      simp only [evsOk] at hok
      simpa [execEvs, execEv, maxLen, lenAfter] using ih mem len hm hl hok
    | notify s n a b =>
      simp only [evsOk] at hok
      simpa [execEvs, execEv, maxLen, lenAfter] using ih mem len hm hl hok
    | move d s n =>
      simp only [evsOk, Bool.and_eq_true, decide_eq_true_eq] at hok
      obtain ⟨⟨h1, h2⟩, h3⟩ := hok
      have hlen : (memmove mem d s n).length = cap := by rw [memmove_length mem d s n (by omega)]; exact hm
      obtain ⟨i1, i2, i3⟩ := ih (memmove mem d s n) len hlen hl h3
      have hge := maxLen_ge es len
      refine ⟨by simpa [execEvs, execEv] using i1, ?_, by simpa [execEvs, execEv, lenAfter] using i3⟩
      simp only [execEvs, List.foldl_cons, execEv, maxLen] at i2 ⊢
      rw [i2]
      exact memmove_drop mem d s n _ (by omega) (by omega)
    | realloc o n ok =>
      cases ok with
      | false =>
        simp only [evsOk] at hok
        obtain ⟨i1, i2, i3⟩ := ih mem len hm hl hok
        have hge := maxLen_ge es len
        refine ⟨by simpa [execEvs, execEv] using i1, ?_, by simpa [execEvs, execEv, lenAfter] using i3⟩
        simp only [execEvs, List.foldl_cons, execEv, maxLen] at i2 ⊢
        have hmx : max len (maxLen len es) = maxLen len es := Nat.max_eq_right hge
        simp only [Bool.false_eq_true, ↓reduceIte] at i2 ⊢
        rw [hmx]; exact i2
      | true =>
        simp only [evsOk, ↓reduceIte, Bool.and_eq_true, decide_eq_true_eq] at hok
        obtain ⟨hn, h3⟩ := hok
        have hge := maxLen_ge es n
        by_cases hgrow : len < n
        · have hw : (wr mem len (List.replicate (n - len) 0)).length = cap := by
            rw [wr_length' _ _ _ (by simp; omega)]; exact hm
          obtain ⟨i1, i2, i3⟩ := ih _ n hw hn h3
          refine ⟨by simpa [execEvs, execEv, hgrow] using i1, ?_, by simpa [execEvs, execEv, lenAfter, hgrow] using i3⟩
          simp only [execEvs, List.foldl_cons, execEv, maxLen, hgrow, ↓reduceIte] at i2 ⊢
          have hk : maxLen n es ≤ max len (maxLen n es) := Nat.le_max_right _ _
          have := congrArg (List.drop (max len (maxLen n es) - maxLen n es)) i2
          rw [List.drop_drop, List.drop_drop] at this
          have e1 : maxLen n es + (max len (maxLen n es) - maxLen n es) = max len (maxLen n es) := by omega
          rw [e1] at this
          rw [this]
          exact wr_drop mem len _ _ (by simp; omega) (by omega)
        · obtain ⟨i1, i2, i3⟩ := ih mem n hm hn h3
          refine ⟨by simpa [execEvs, execEv, hgrow] using i1, ?_, by simpa [execEvs, execEv, lenAfter, hgrow] using i3⟩
          simp only [execEvs, List.foldl_cons, execEv, maxLen, hgrow, ↓reduceIte] at i2 ⊢
          have := congrArg (List.drop (max len (maxLen n es) - maxLen n es)) i2
          rw [List.drop_drop, List.drop_drop] at this
          have e1 : maxLen n es + (max len (maxLen n es) - maxLen n es) = max len (maxLen n es) := by omega
          rw [e1] at this
          exact this

/-! ## The replay reproduces the machine's bytes (the access lists cannot drift from the byte machine) -/

theorem wr_end (bs sl z : List Nat) (hz : z.length ≤ sl.length) :
    wr (bs ++ sl) bs.length z = bs ++ z ++ sl.drop z.length := by
  unfold wr
  simp [List.take_append, List.drop_append]

/-- A `memmove` inside the data does not see the slack. -/
theorem memmove_append (bs sl : List Nat) (d s n : Nat) (hd : d + n ≤ bs.length) (hs : s + n ≤ bs.length) :
    memmove (bs ++ sl) d s n = memmove bs d s n ++ sl := by
  unfold memmove rd wr
  have h1 : ((bs ++ sl).drop s).take n = (bs.drop s).take n := by
    rw [List.drop_append_of_le_length (by omega), List.take_append_of_le_length (by simp; omega)]
  rw [h1]
  have hl : ((bs.drop s).take n).length = n := by simp; omega
  rw [hl, List.take_append_of_le_length (by omega), List.drop_append_of_le_length (by omega)]
  simp [List.append_assoc]

/-- **`add_bytes`: replaying its events on `data ++ slack` yields exactly the machine's new data.** -/
theorem addBytes_replay (m m1 : Mem) (start amount : Nat) (h : m.addBytes start amount = (m1, .ok ()))
    (sl : List Nat) (hsl : amount ≤ sl.length) :
    execEvs (m.bytes ++ sl, m.bytes.length) (addBytesEvs m start amount)
      = (m1.bytes ++ sl.drop amount, m1.bytes.length) := by
  unfold Mem.addBytes at h
  unfold addBytesEvs
  split at h
  · cases h
  · rename_i h1
    simp only [Nat.not_lt] at h1
    split at h
    · rename_i h2
      simp only [Prod.mk.injEq] at h
      obtain ⟨rfl, _⟩ := h
      subst h2
      simp [Nat.not_lt.mpr h1, execEvs, execEv]
    · rename_i h2
      simp only at h
      split at h
      · cases h
      · rename_i h3
        split at h
        · cases h
        · rename_i h4
          simp only [Prod.mk.injEq] at h
          obtain ⟨rfl, _⟩ := h
          simp only [Nat.not_lt] at h4
          simp only [Nat.not_lt.mpr h1, h2, ↓reduceIte, h3, false_or, Nat.not_lt.mpr h4]
          have hz : (List.replicate amount 0).length ≤ sl.length := by simpa using hsl
          have hgrow : m.bytes.length < m.bytes.length + amount := by omega
          have hfill : wr (m.bytes ++ sl) m.bytes.length (List.replicate (m.bytes.length + amount - m.bytes.length) 0)
              = m.bytes ++ List.replicate amount 0 ++ sl.drop amount := by
            have : m.bytes.length + amount - m.bytes.length = amount := by omega
            rw [this]; simpa using wr_end m.bytes sl (List.replicate amount 0) hz
          have hlenRaw : (addBytesRaw m.bytes start amount).length = m.bytes.length + amount := by
            simp [addBytesRaw]; omega
          split
          · rename_i h5
            subst h5
            simp only [execEvs, List.foldl_cons, execEv, List.foldl_nil, ↓reduceIte, hgrow, hfill, hlenRaw]
            simp [addBytesRaw]
          · rename_i h5
            simp only [execEvs, List.foldl_cons, execEv, List.foldl_nil, ↓reduceIte, hgrow, hfill, hlenRaw]
            have hX : m.bytes ++ List.replicate amount 0 ++ List.drop amount sl
                = (m.bytes ++ List.replicate amount 0) ++ List.drop amount sl := rfl
            rw [hX, memmove_append _ _ _ _ _ (by simp; omega) (by simp; omega)]
            congr 2
            -- inside the data: tail moved up by `amount`, gap keeps what was there
            unfold memmove rd wr addBytesRaw
            have e1 : ((m.bytes ++ List.replicate amount 0).drop start).take (m.bytes.length - start)
                = m.bytes.drop start := by
              rw [List.drop_append_of_le_length h1, List.take_append_of_le_length (by simp)]
              apply List.take_of_length_le; simp
            rw [e1]
            have e2 : (m.bytes ++ List.replicate amount 0).take (start + amount)
                = m.bytes.take start ++ ((m.bytes.drop start ++ List.replicate amount 0).take amount) := by
              have : m.bytes ++ List.replicate amount 0
                  = m.bytes.take start ++ (m.bytes.drop start ++ List.replicate amount 0) := by
                rw [← List.append_assoc, List.take_append_drop]
              rw [this, List.take_append, List.length_take, Nat.min_eq_left h1]
              have : start + amount - start = amount := by omega
              rw [this, List.take_of_length_le (by simp; omega)]
            rw [e2]
            have e3 : (m.bytes ++ List.replicate amount 0).drop (start + amount + (m.bytes.drop start).length) = [] := by
              apply List.drop_eq_nil_of_le; simp; omega
            rw [e3]; simp

/-- **`remove_bytes`: replaying its events on `data ++ slack` yields the machine's new data**; the bytes
that fall out of the data keep their (stale) content. -/
theorem removeBytes_replay (m m1 : Mem) (start stop : Nat) (h : m.removeBytes start stop = (m1, .ok ()))
    (sl : List Nat) :
    ∃ stale : List Nat, stale.length = stop - start ∧
      execEvs (m.bytes ++ sl, m.bytes.length) (removeBytesEvs m start stop)
        = (m1.bytes ++ stale ++ sl, m1.bytes.length) := by
  unfold Mem.removeBytes at h
  unfold removeBytesEvs
  split at h
  · cases h
  · rename_i h1
    split at h
    · cases h
    · rename_i h2
      split at h
      · cases h
      · rename_i h3
        simp only [Nat.not_lt] at h1 h2 h3
        split at h
        · rename_i h4
          simp only [Prod.mk.injEq] at h
          obtain ⟨rfl, _⟩ := h
          refine ⟨[], by simp [h4], ?_⟩
          simp [Nat.not_lt.mpr h1, Nat.not_lt.mpr h2, Nat.not_lt.mpr h3, h4, execEvs, execEv]
        · rename_i h4
          simp only [Prod.mk.injEq] at h
          obtain ⟨rfl, _⟩ := h
          simp only [Nat.not_lt.mpr h1, Nat.not_lt.mpr h2, Nat.not_lt.mpr h3, h4, ↓reduceIte]
          have hlenRaw : (removeBytesRaw m.bytes start stop).length = m.bytes.length - (stop - start) := by
            simp [removeBytesRaw]; omega
          have hshrink : ¬ m.bytes.length < m.bytes.length - (stop - start) := by omega
          split
          · rename_i h5
            refine ⟨m.bytes.drop start, by simp; omega, ?_⟩
            simp only [execEvs, List.foldl_cons, execEv, List.foldl_nil, ↓reduceIte, hshrink, hlenRaw]
            simp only [removeBytesRaw, h5, List.drop_length, List.append_nil, List.take_append_drop]
          · rename_i h5
            refine ⟨(m.bytes.drop (start + (m.bytes.length - stop))), by simp; omega, ?_⟩
            simp only [execEvs, List.foldl_cons, execEv, List.foldl_nil, ↓reduceIte, hshrink, hlenRaw]
            rw [memmove_append _ _ _ _ _ (by omega) (by omega)]
            congr 2
            unfold memmove rd wr removeBytesRaw
            have e1 : (m.bytes.drop stop).take (m.bytes.length - stop) = m.bytes.drop stop := by
              apply List.take_of_length_le; simp
            rw [e1]
            simp only [List.length_drop, List.append_assoc]

end Unsized.Machine
