import Unsized.CodecLemmasEnc
/-!
# Parsing what the serializer wrote: the leaf parsers (`Fixed`, `List`, `UnsizedList`)
-/
namespace Unsized
open Common

/-! ## fixed -/

theorem extentFixed_encode (f : Fixed) (l rest : List Nat) (hl : l.length = f.size)
    (hv : f.valid l = true) : extentFixed f (l ++ rest) = .ok f.size := by
  unfold extentFixed
  have h1 : f.size ≤ (l ++ rest).length := by simp; omega
  rw [if_pos h1, List.take_left' hl, if_pos hv]

theorem rawSlice_prefix (l rest : List Nat) (n : Nat) (hl : l.length = n) :
    rawSlice (l ++ rest) 0 n = .ok l := by
  subst hl; exact rawSlice_zero_left l rest

/-! ## list -/

theorem extentList_encode (ew lw : Nat) (es : List (List Nat)) (rest : List Nat)
    (hw : ∀ x ∈ es, x.length = ew) (hfit : es.length < 256 ^ lw)
    (hsz : ew * es.length < Shape.usizeLim) :
    extentList ew lw (leN lw es.length ++ es.flatten ++ rest) = .ok (lw + ew * es.length) := by
  unfold extentList
  have hf := flatten_length ew es hw
  have hlen : (leN lw es.length ++ es.flatten ++ rest).length = lw + ew * es.length + rest.length := by
    simp only [List.length_append, leN_length, hf]
  have h1 : lw ≤ (leN lw es.length ++ es.flatten ++ rest).length := by omega
  rw [if_pos h1]
  have ht : (leN lw es.length ++ es.flatten ++ rest).take lw = leN lw es.length := by
    rw [List.append_assoc]; exact List.take_left' (leN_length _ _)
  simp only [ht, rdLE_leN lw es.length hfit]
  rw [if_neg (by omega), if_pos (by omega)]

theorem listParts_encode (ew lw : Nat) (es : List (List Nat)) (rest : List Nat)
    (hw : ∀ x ∈ es, x.length = ew) (hfit : es.length < 256 ^ lw) :
    listParts ew lw (leN lw es.length ++ es.flatten ++ rest) = .ok es := by
  unfold listParts
  have hf := flatten_length ew es hw
  rw [List.append_assoc, rawSlice_prefix _ _ lw (leN_length _ _)]
  simp only [rdLE_leN lw es.length hfit]
  have h2 : rawSlice (leN lw es.length ++ (es.flatten ++ rest)) lw (ew * es.length) = .ok es.flatten := by
    have := rawSlice_mid (leN lw es.length) es.flatten rest
    rw [leN_length, hf, List.append_assoc] at this; exact this
  rw [h2]
  have := chunks_flatten ew es [] hw
  simp at this; simp [this]

end Unsized

namespace Unsized
open Common

/-! ## UnsizedList -/

/-- The offset table bytes for `(key, encoded element)` items. -/
def tblEntries (items : List (List Nat × List Nat)) : List (List Nat) :=
  List.zipWith (fun o (it : List Nat × List Nat) => leN 4 o ++ it.1)
    (offsets (items.map (·.2.length)) 0) items

/-- The serialized form of an `UnsizedList`/`UnsizedMap` with the given `(key, encoding)` items. -/
def ulistBytes (items : List (List Nat × List Nat)) : List Nat :=
  leN 4 ((items.map (·.2.length)).sum) ++ leN 4 items.length ++ (tblEntries items).flatten
    ++ leN 4 items.length ++ (items.map (·.2)).flatten

theorem zipWith_nokeys (offs : List Nat) (xs : List (List Nat)) (h : offs.length = xs.length) :
    List.zipWith (fun o (it : List Nat × List Nat) => leN 4 o ++ it.1) offs
      (xs.map (fun x => (([] : List Nat), x))) = offs.map (leN 4) := by
  induction xs generalizing offs with
  | nil => cases offs <;> simp at h ⊢
  | cons x xs ih =>
    cases offs with
    | nil => simp at h
    | cons o os => simp [ih os (by simpa using h)]

theorem encode_ulist_eq (e : Shape) (vs : List Val) :
    encode (.ulist e) (.useq vs) = ulistBytes (vs.map (fun v => (([] : List Nat), encode e v))) := by
  simp only [encode, ulistBytes, tblEntries, List.map_map, List.length_map]
  have h1 : (vs.map ((fun x : List Nat × List Nat => x.2.length) ∘ fun v => (([] : List Nat), encode e v)))
      = (vs.map (List.length ∘ encode e)) := by
    apply List.map_congr_left; intro x _; rfl
  have h2 : (vs.map ((fun x : List Nat × List Nat => x.2) ∘ fun v => (([] : List Nat), encode e v)))
      = vs.map (encode e) := by
    apply List.map_congr_left; intro x _; rfl
  rw [h1, h2]
  have h3 := zipWith_nokeys (offsets (vs.map (List.length ∘ encode e)) 0) (vs.map (encode e))
    (by simp)
  rw [List.map_map] at h3
  have h4 : (vs.map ((fun x => (([] : List Nat), x)) ∘ encode e))
      = vs.map (fun v => (([] : List Nat), encode e v)) := by
    apply List.map_congr_left; intro x _; rfl
  rw [h4] at h3
  rw [h3]

theorem encode_umap_eq (kw : Nat) (e : Shape) (es : List (List Nat × Val)) :
    encode (.umap kw e) (.umap es) = ulistBytes (es.map (fun kv => (kv.1, encode e kv.2))) := by
  simp only [encode, ulistBytes, tblEntries, List.map_map, List.length_map]
  have h1 : (es.map ((fun x : List Nat × List Nat => x.2.length) ∘ fun kv => (kv.1, encode e kv.2)))
      = (es.map (List.length ∘ fun kv => encode e kv.2)) := by
    apply List.map_congr_left; intro x _; rfl
  have h2 : (es.map ((fun x : List Nat × List Nat => x.2) ∘ fun kv => (kv.1, encode e kv.2)))
      = es.map (fun kv => encode e kv.2) := by
    apply List.map_congr_left; intro x _; rfl
  rw [h1, h2, List.zipWith_map_right]

theorem tblEntries_length (items : List (List Nat × List Nat)) :
    (tblEntries items).length = items.length := by
  simp [tblEntries]

theorem tblEntries_width (kw : Nat) (items : List (List Nat × List Nat))
    (hk : ∀ it ∈ items, it.1.length = kw) : ∀ c ∈ tblEntries items, c.length = 4 + kw := by
  intro c hc
  simp only [tblEntries] at hc
  obtain ⟨i, hi, rfl⟩ := List.mem_iff_getElem.1 hc
  simp only [List.getElem_zipWith, List.length_append, leN_length]
  rw [hk _ (List.getElem_mem _)]

theorem extentUlist_encode (kw : Nat) (items : List (List Nat × List Nat)) (rest : List Nat)
    (hk : ∀ it ∈ items, it.1.length = kw)
    (hn : items.length < Shape.u32Lim) (hs : (items.map (·.2.length)).sum < Shape.u32Lim) :
    extentUlist (4 + kw) (ulistBytes items ++ rest)
      = .ok (4 + 4 + items.length * (4 + kw) + 4 + (items.map (·.2.length)).sum) := by
  have hT : (tblEntries items).flatten.length = (4 + kw) * items.length := by
    rw [flatten_length (4 + kw) _ (tblEntries_width kw items hk), tblEntries_length]
  have hD : (items.map (·.2)).flatten.length = (items.map (·.2.length)).sum := by
    rw [sum_map_length_flatten, List.map_map]; rfl
  have h32 : Shape.u32Lim = 256 ^ 4 := by decide
  generalize hSdef : (items.map (·.2.length)).sum = S at *
  generalize hTdef : (tblEntries items).flatten = T at *
  generalize hDdef : (items.map (·.2)).flatten = D at *
  have hbs : ulistBytes items ++ rest
      = leN 4 S ++ (leN 4 items.length ++ (T ++ (leN 4 items.length ++ (D ++ rest)))) := by
    simp only [ulistBytes, hSdef, hTdef, hDdef, List.append_assoc]
  rw [hbs]
  have hlen : (leN 4 S ++ (leN 4 items.length ++ (T ++ (leN 4 items.length ++ (D ++ rest))))).length
      = 4 + (4 + ((4 + kw) * items.length + (4 + (S + rest.length)))) := by
    simp only [List.length_append, leN_length, hT, hD]
  unfold extentUlist
  rw [hlen]
  rw [List.take_left' (leN_length 4 S), List.drop_left' (leN_length 4 S),
    List.take_left' (leN_length 4 items.length)]
  rw [rdLE_leN 4 S (by omega), rdLE_leN 4 items.length (by omega)]
  have hm : items.length * (4 + kw) = (4 + kw) * items.length := Nat.mul_comm _ _
  simp only [hm]
  rw [if_pos (by omega), if_pos (by omega), if_pos (by omega), if_pos (by omega), if_pos (by omega)]

end Unsized

namespace Unsized
open Common

/-- The parsed offset table: `(offset, key)` per item. -/
def tblParsed (items : List (List Nat × List Nat)) : List (Nat × List Nat) :=
  List.zipWith (fun o (it : List Nat × List Nat) => (o, it.1))
    (offsets (items.map (·.2.length)) 0) items

theorem parse_entries (offs : List Nat) (items : List (List Nat × List Nat))
    (hl : offs.length = items.length) (ho : ∀ o ∈ offs, o < 256 ^ 4) :
    (List.zipWith (fun o (it : List Nat × List Nat) => leN 4 o ++ it.1) offs items).map
        (fun c => (rdLE (c.take 4), c.drop 4))
      = List.zipWith (fun o (it : List Nat × List Nat) => (o, it.1)) offs items := by
  induction items generalizing offs with
  | nil => cases offs <;> simp at hl ⊢
  | cons it items ih =>
    cases offs with
    | nil => simp at hl
    | cons o os =>
      simp only [List.zipWith_cons_cons, List.map_cons]
      rw [List.take_left' (leN_length 4 o), List.drop_left' (leN_length 4 o),
        rdLE_leN 4 o (ho o (by simp)), ih os (by simpa using hl) (fun x hx => ho x (by simp [hx]))]

theorem tblParsed_fst (items : List (List Nat × List Nat)) :
    (tblParsed items).map (·.1) = offsets (items.map (·.2.length)) 0 := by
  unfold tblParsed
  generalize hoff : offsets (items.map (·.2.length)) 0 = offs
  have hl : offs.length = items.length := by rw [← hoff]; simp
  clear hoff
  induction items generalizing offs with
  | nil => cases offs <;> simp at hl ⊢
  | cons it items ih =>
    cases offs with
    | nil => simp at hl
    | cons o os => simp [ih os (by simpa using hl)]

theorem tblParsed_snd (items : List (List Nat × List Nat)) :
    (tblParsed items).map (·.2) = items.map (·.1) := by
  unfold tblParsed
  generalize hoff : offsets (items.map (·.2.length)) 0 = offs
  have hl : offs.length = items.length := by rw [← hoff]; simp
  clear hoff
  induction items generalizing offs with
  | nil => cases offs <;> simp at hl ⊢
  | cons it items ih =>
    cases offs with
    | nil => simp at hl
    | cons o os => simp [ih os (by simpa using hl)]

theorem ulistParts_encode (kw : Nat) (items : List (List Nat × List Nat)) (rest : List Nat)
    (hk : ∀ it ∈ items, it.1.length = kw)
    (hn : items.length < Shape.u32Lim) (hs : (items.map (·.2.length)).sum < Shape.u32Lim) :
    ulistParts (4 + kw) (ulistBytes items ++ rest)
      = .ok (tblParsed items, (items.map (·.2)).flatten) := by
  have hTw := tblEntries_width kw items hk
  have hT : (tblEntries items).flatten.length = (4 + kw) * items.length := by
    rw [flatten_length (4 + kw) _ hTw, tblEntries_length]
  have hD : (items.map (·.2)).flatten.length = (items.map (·.2.length)).sum := by
    rw [sum_map_length_flatten, List.map_map]; rfl
  have h32 : Shape.u32Lim = 256 ^ 4 := by decide
  have hoffs : ∀ o ∈ offsets (items.map (·.2.length)) 0, o < 256 ^ 4 := by
    intro o ho; have := offsets_le _ 0 o ho; omega
  have hparse : parseTable (4 + kw) items.length (tblEntries items).flatten = tblParsed items := by
    unfold parseTable
    have := chunks_flatten (4 + kw) (tblEntries items) [] hTw
    rw [tblEntries_length, List.append_nil] at this
    rw [this]
    exact parse_entries _ items (by simp) hoffs
  generalize hSdef : (items.map (·.2.length)).sum = S at *
  generalize hDdef : (items.map (·.2)).flatten = D at *
  generalize hTdef : (tblEntries items).flatten = T at *
  have hbs : ulistBytes items ++ rest
      = (leN 4 S ++ leN 4 items.length) ++ (T ++ (leN 4 items.length ++ (D ++ rest))) := by
    simp only [ulistBytes, hSdef, hTdef, hDdef, List.append_assoc]
  unfold ulistParts
  rw [hbs, rawSlice_prefix _ _ 8 (by simp)]
  simp only []
  rw [List.take_left' (leN_length 4 S), List.drop_left' (leN_length 4 S),
    rdLE_leN 4 S (by omega), rdLE_leN 4 items.length (by omega)]
  have h2 : rawSlice ((leN 4 S ++ leN 4 items.length) ++ (T ++ (leN 4 items.length ++ (D ++ rest))))
      8 (items.length * (4 + kw)) = .ok T := by
    have := rawSlice_mid (leN 4 S ++ leN 4 items.length) T (leN 4 items.length ++ (D ++ rest))
    rw [hT, Nat.mul_comm] at this
    simpa [List.append_assoc] using this
  rw [h2]
  simp only []
  have h3 : rawSlice ((leN 4 S ++ leN 4 items.length) ++ (T ++ (leN 4 items.length ++ (D ++ rest))))
      (8 + items.length * (4 + kw) + 4) S = .ok D := by
    have := rawSlice_mid (leN 4 S ++ leN 4 items.length ++ T ++ leN 4 items.length) D rest
    rw [hD] at this
    have hl : (leN 4 S ++ leN 4 items.length ++ T ++ leN 4 items.length).length
        = 8 + items.length * (4 + kw) + 4 := by
      simp only [List.length_append, leN_length, hT]; rw [Nat.mul_comm]
    rw [hl] at this
    simpa [List.append_assoc] using this
  rw [h3]
  simp only [hparse]

end Unsized

namespace Unsized
open Common

theorem ranges_offsets (c : Nat) (cs : List Nat) (acc : Nat) :
    ranges (offsets (c :: cs) acc) (acc + (c + cs.sum))
      = (acc, acc + c) :: ranges (offsets cs (acc + c)) (acc + c + cs.sum) := by
  cases cs with
  | nil => simp [offsets, ranges]
  | cons c' cs => simp [offsets, ranges, Nat.add_assoc]

/-- Walking the elements of a serialized list finds every element again (both slicings). -/
theorem elems_encoded {α : Type} (sl : Slicing) (bad : E) (stop : Bool)
    (fext : List Nat → Except E Nat) (body : List Nat → Except E α)
    (items : List (List Nat × α))
    (h : ∀ it ∈ items, ∀ rest, (∃ n, fext (it.1 ++ rest) = .ok n) ∧ body (it.1 ++ rest) = .ok it.2)
    (pre : List Nat) :
    elems sl bad stop fext body (pre ++ (items.map (·.1)).flatten)
        (ranges (offsets (items.map (·.1.length)) pre.length)
          (pre.length + (items.map (·.1.length)).sum))
      = .ok (items.map (·.2)) := by
  induction items generalizing pre with
  | nil => simp [offsets, ranges, elems]
  | cons it items ih =>
    obtain ⟨c, v⟩ := it
    simp only [List.map_cons, List.flatten_cons, List.sum_cons]
    rw [ranges_offsets]
    have hit := h (c, v) (by simp)
    have hslice : ∃ rest, elemSlice sl (pre ++ (c ++ (items.map (·.1)).flatten))
        (pre.length, pre.length + c.length) = some (c ++ rest) := by
      cases sl with
      | exact =>
        refine ⟨[], ?_⟩
        simp only [elemSlice]
        rw [if_pos (by simp)]
        simp
      | suffix =>
        refine ⟨(items.map (·.1)).flatten, ?_⟩
        simp only [elemSlice]
        rw [if_pos (by simp)]
        simp
    obtain ⟨rest, hsl⟩ := hslice
    obtain ⟨⟨n, hn⟩, hb⟩ := hit rest
    have hrec := ih (fun it' hit' => h it' (by simp [hit'])) (pre ++ c)
    simp only [List.length_append, List.append_assoc] at hrec
    unfold elems
    simp only [hsl, hn, hb]
    rw [hrec]

end Unsized
