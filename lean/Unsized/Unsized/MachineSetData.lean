import Unsized.MachineListRefines
/-!
# `extent_at` (a sub-value ending in `RemainingBytes` is the tail of the buffer) and
`setDataInner_refines` (`set_from_owned` / `set_from_init` / enum setters at any depth)
-/
namespace Unsized.Machine
open Common Unsized Unsized.Text

theorem zst_field_last (fs : List Shape) (i : Nat) (f : Shape) (hok : Shape.okFields fs = true)
    (hf : fs[i]? = some f) (hz : f.zst = true) : fs.drop (i + 1) = [] := by
  induction fs generalizing i with
  | nil => simp
  | cons f' fs ih =>
    cases fs with
    | nil => cases i <;> simp
    | cons g gs =>
      obtain ⟨_, h2, h3⟩ := okFields_cons2 f' g gs hok
      cases i with
      | zero => simp at hf; subst hf; rw [h2] at hz; cases hz
      | succ i => simpa using ih i h3 (by simpa using hf)

/-- Nothing follows a child that ends in `RemainingBytes`. -/
theorem stepPost_nil (s : Shape) (v : Val) (st : Step) (t : Shape) (u : Val) (g : Good s v)
    (h : resolve1 s v st = .ok (t, u)) (hz : t.zst = true) : stepPost s v st = [] := by
  unfold resolve1 at h
  split at h
  · rename_i sized fs sz vs i
    split at h
    · rename_i f x hf hx
      cases h
      obtain ⟨⟨top, ie, hok⟩, _, _⟩ := g
      simp only [Shape.okAux, Bool.and_eq_true] at hok
      simp only [stepPost, zst_field_last fs i t hok.2 hf hz]
      cases (vs.drop (i + 1)) <;> rfl
    · cases h
  · rename_i e vs i
    split at h
    · cases h
      obtain ⟨⟨top, ie, hok⟩, _, _⟩ := g
      simp only [Shape.okAux, Bool.and_eq_true, Bool.not_eq_true'] at hok
      rw [hok.2] at hz; cases hz
    · cases h
  · rename_i kw e es i
    split at h
    · cases h
      obtain ⟨⟨top, ie, hok⟩, _, _⟩ := g
      simp only [Shape.okAux, Bool.and_eq_true, Bool.not_eq_true'] at hok
      rw [hok.2] at hz; cases hz
    · cases h
  · simp only [stepPost]
  · cases h

/-- A sub-value that ends in `RemainingBytes` is the tail of the whole value. -/
theorem tail_zst (p : List Step) : ∀ (s : Shape) (v : Val) (t : Shape) (u : Val), Good s v →
    resolve s v p = .ok (t, u) → t.zst = true →
    ∃ A : List Nat, A.length = offsetOf s v p ∧ encode s v = A ++ encode t u := by
  induction p with
  | nil => intro s v t u g h hz; simp [resolve] at h; obtain ⟨rfl, rfl⟩ := h; exact ⟨[], by simp [offsetOf], by simp⟩
  | cons st p ih =>
    intro s v t u g h hz
    simp only [resolve] at h
    cases h1 : resolve1 s v st with
    | error e => simp [h1] at h
    | ok tu =>
      obtain ⟨t1, u1⟩ := tu
      simp only [h1] at h
      obtain ⟨g1, henc, hlen, _⟩ := step_facts s v st t1 u1 g h1
      obtain ⟨A, hA, hE⟩ := ih t1 u1 t u g1 h hz
      have hz1 : t1.zst = true := by
        cases hzz : t1.zst with
        | true => rfl
        | false =>
          -- a non-ZST node has no ZST descendant
          have : ∀ (q : List Step) (s' : Shape) (v' : Val), Good s' v' → s'.zst = false →
              resolve s' v' q = .ok (t, u) → t.zst = false := by
            intro q
            induction q with
            | nil => intro s' v' _ hz' hr; simp [resolve] at hr; obtain ⟨rfl, rfl⟩ := hr; exact hz'
            | cons st' q ihq =>
              intro s' v' g' hz' hr
              simp only [resolve] at hr
              cases h2 : resolve1 s' v' st' with
              | error e => simp [h2] at hr
              | ok tu2 =>
                obtain ⟨t2, u2⟩ := tu2
                simp only [h2] at hr
                exact ihq t2 u2 (step_facts s' v' st' t2 u2 g' h2).1 (step_nonzst s' v' st' t2 u2 g' hz' h2).2 hr
          rw [this p t1 u1 g1 hzz h] at hz; cases hz
      refine ⟨stepPre s v st (encode t1 u1).length ++ A, ?_, ?_⟩
      · simp only [List.length_append, offsetOf, h1, hA]; rw [hlen _ 0]
      · rw [henc, stepPost_nil s v st t1 u1 g h1 hz1, hE]; simp [List.append_assoc]

/-- `get_ptr` on the node's bytes inside the canonical buffer covers exactly the node. -/
theorem extent_at {s v p t u m} (F : Focus s v p t u m) :
    extent t (m.bytes.drop (offsetOf s v p)) = .ok (encode t u).length := by
  obtain ⟨⟨top, ie, hok⟩, hv, hf⟩ := F.sub
  cases hz : t.zst with
  | true =>
    obtain ⟨A, hA, hE⟩ := tail_zst p s v t u F.good F.res hz
    rw [F.bytes, hE, drop_append_len A _ _ hA.symm]
    have := (roundTrip_all t top ie hok u [] hv hf (Or.inl rfl)).1
    rw [List.append_nil] at this
    rw [this, encode_size_all t u hv]
  | false =>
    obtain ⟨A, C, hA, hE, _⟩ := encode_split p s v t u F.good F.res
    rw [F.bytes, hE, List.append_assoc, drop_append_len A _ _ hA.symm]
    rw [(roundTrip_all t top ie hok u C hv hf (Or.inr hz)).1, encode_size_all t u hv]


/-- **`set_data_inner`** (`set_from_owned`, `set_from_init`, enum setters) with an infallible
initialiser that writes `encode t u'`: the node becomes `u'`. -/
theorem setDataInner_refines {s v p t u m} (F : Focus s v p t u m) (c : Calm m) (u' : Val) (g' : Good t u')
    (hroom : (plug s v p (encode t u')).length ≤ m.orig + maxIncrease) :
    ∃ m', setDataInner ⟨s, p⟩ t (offsetOf s v p) (encode t u') false m = (m', .ok ())
      ∧ Focus s (subst s v p u') p t u' m' ∧ m'.orig = m.orig ∧ m'.refuse = m.refuse := by
  have hpl := plug_length p s v t u F.good F.res (encode t u')
  have hsm := F.small c _ hroom
  unfold setDataInner
  rw [extent_at F]
  simp only [Bool.false_eq_true, if_false]
  by_cases h1 : (encode t u).length < (encode t u').length
  · simp only [h1, if_true]
    obtain ⟨G, m1, _, hG, hadd, hb1, ho1, hr1⟩ := F.grow c 0 ((encode t u').length - (encode t u).length)
      (by omega) (by omega)
    rw [Nat.add_zero] at hadd
    rw [hadd]
    simp only []
    refine ⟨_, rfl, ?_, ho1, hr1⟩
    apply F.finish u' g'
    · simp only []
      rw [hb1]
      have hw := plug_wr p s v t u F.good F.res ((encode t u).take 0 ++ G ++ (encode t u).drop 0) (encode t u') 0
        (by simp [hG]; omega)
      rw [Nat.add_zero] at hw
      rw [hw]
      have : wr ((encode t u).take 0 ++ G ++ (encode t u).drop 0) 0 (encode t u') = encode t u' := by
        have := wr_zero ((encode t u).take 0 ++ G ++ (encode t u).drop 0) (encode t u') [] (by simp [hG]; omega)
        simpa using this
      rw [this]
    · simp only []
      rw [hb1]
      have hw := plug_wr p s v t u F.good F.res ((encode t u).take 0 ++ G ++ (encode t u).drop 0) (encode t u') 0
        (by simp [hG]; omega)
      rw [Nat.add_zero] at hw
      have hx : wr ((encode t u).take 0 ++ G ++ (encode t u).drop 0) 0 (encode t u') = encode t u' := by
        have := wr_zero ((encode t u).take 0 ++ G ++ (encode t u).drop 0) (encode t u') [] (by simp [hG]; omega)
        simpa using this
      rw [hw, hx]; exact hsm
  · simp only [h1, if_false]
    by_cases h2 : (encode t u').length < (encode t u).length
    · simp only [h2, if_true]
      obtain ⟨m1, hrem, hb1, ho1, hr1, _⟩ := F.shrink 0 ((encode t u).length - (encode t u').length)
        (by omega) (by omega)
      rw [Nat.add_zero] at hrem
      rw [hrem]
      simp only []
      refine ⟨_, rfl, ?_, ho1, hr1⟩
      have hx : wr ((encode t u).take 0 ++ (encode t u).drop ((encode t u).length - (encode t u').length)) 0
          (encode t u') = encode t u' := by
        have := wr_zero ((encode t u).take 0 ++ (encode t u).drop ((encode t u).length - (encode t u').length))
          (encode t u') [] (by simp; omega)
        simpa using this
      have hw := plug_wr p s v t u F.good F.res
        ((encode t u).take 0 ++ (encode t u).drop ((encode t u).length - (encode t u').length)) (encode t u') 0
        (by simp; omega)
      rw [Nat.add_zero] at hw
      apply F.finish u' g'
      · simp only []; rw [hb1, hw, hx]
      · simp only []; rw [hb1, hw, hx]; exact hsm
    · simp only [h2, if_false]
      refine ⟨_, rfl, ?_, rfl, rfl⟩
      have hx : wr (encode t u) 0 (encode t u') = encode t u' := by
        have := wr_zero (encode t u) (encode t u') [] (by omega)
        simpa using this
      have hw := enc_wr p s v t u F.good F.res (encode t u') 0 (by omega)
      rw [Nat.add_zero] at hw
      apply F.finish u' g'
      · simp only []; rw [F.bytes, hw, hx]
      · simp only []; rw [F.bytes, hw, hx]; exact hsm

end Unsized.Machine
