import Unsized.AccessStoreBounds
/-!
# Store bounds per operation (on canonical buffers)
-/
namespace Unsized.Machine
open Common Unsized Unsized.Text

theorem Calm.cap_ok {m : Mem} (c : Calm m) : m.bytes.length ≤ m.cap ∧ m.cap < Shape.u32Lim :=
  ⟨c.fitsNow, c.small⟩

/-- Nothing happened. -/
theorem StepOk.nil {α : Type} (m : Mem) (r : Except Err α) (h : m.bytes.length ≤ m.cap) :
    StepOk m (((m, r), []) : TracedS α) m.bytes.length :=
  ⟨rfl, rfl, by simp [rawOf, maxLen], rfl, rfl, h⟩

/-- Only the result value changes. -/
theorem StepOk.retag {α β : Type} {m m1 : Mem} {r : Except Err α} {ev : List EvS} {L : Nat}
    (h : StepOk m (((m1, r), ev) : TracedS α) L) (r' : Except Err β) : StepOk m (((m1, r'), ev) : TracedS β) L :=
  ⟨h.ok, h.lenAfter, h.maxl, h.len, h.orig, h.cap⟩

/-- One more typed store, inside the data. -/
theorem StepOk.add_store {α β : Type} {m m1 : Mem} {r : Except Err α} {ev : List EvS} {L : Nat}
    (h : StepOk m (((m1, r), ev) : TracedS α) L) (off : Nat) (v : List Nat) (hin : off + v.length ≤ L)
    (r' : Except Err β) :
    StepOk m ((({ m1 with bytes := wr m1.bytes off v }, r'), ev ++ [.store off v]) : TracedS β) L := by
  have hl : m1.bytes.length = L := h.len
  refine ⟨?_, ?_, ?_, ?_, h.orig, h.cap⟩
  · rw [evsOkS_append, h.ok, h.lenAfter]; simp [evsOkS, hin]
  · simp only [rawOf_append, rawOf_store, rawOf_nil, List.append_nil]; exact h.lenAfter
  · simp only [rawOf_append, rawOf_store, rawOf_nil, List.append_nil]; exact h.maxl
  · simp only []; rw [wr_length' _ _ _ (by omega)]; exact hl

/-- A trailing raw `memmove`, inside the data. -/
theorem StepOk.add_move {α β : Type} {m m1 : Mem} {r : Except Err α} {ev : List EvS} {L : Nat}
    (h : StepOk m (((m1, r), ev) : TracedS α) L) (d s n : Nat) (hd : d + n ≤ L) (hs : s + n ≤ L)
    (r' : Except Err β) :
    StepOk m ((({ m1 with bytes := memmove m1.bytes d s n }, r'), ev ++ [.raw (.move d s n)]) : TracedS β) L := by
  have hl : m1.bytes.length = L := h.len
  refine ⟨?_, ?_, ?_, ?_, h.orig, h.cap⟩
  · rw [evsOkS_append, h.ok, h.lenAfter]; simp [evsOkS, hd, hs]
  · simp only [rawOf_append, rawOf_raw, rawOf_nil, lenAfter_append, lenAfter]; exact h.lenAfter
  · simp only [rawOf_append, rawOf_raw, rawOf_nil, maxLen_append, maxLen, h.lenAfter, h.maxl]; omega
  · simp only []; rw [memmove_length _ _ _ _ (by omega)]; exact hl

/-- Store-only events that keep the length, all inside the data (offset-table rewrites, initialisers). -/
theorem StepOk.add_stores {α β : Type} {m m1 : Mem} {r : Except Err α} {ev : List EvS} {L : Nat}
    (h : StepOk m (((m1, r), ev) : TracedS α) L) (sv : List EvS) (bs' : List Nat)
    (hso : storesOnly sv = true) (hok : evsOkS m.cap L sv = true) (hlen : bs'.length = L)
    (r' : Except Err β) :
    StepOk m ((({ m1 with bytes := bs' }, r'), ev ++ sv) : TracedS β) L := by
  have hr := rawOf_storesOnly sv hso
  refine ⟨?_, ?_, ?_, hlen, h.orig, h.cap⟩
  · rw [evsOkS_append, h.ok, h.lenAfter, hok]; rfl
  · simp only [rawOf_append, hr, List.append_nil]; exact h.lenAfter
  · simp only [rawOf_append, hr, List.append_nil]; exact h.maxl

/-! ## List-shaped nodes: `leN lw len ++ records` -/

structure LNode (t : Shape) (u : Val) (ew lw : Nat) (es : List (List Nat)) : Prop where
  enc : encode t u = leN lw es.length ++ es.flatten
  wid : ∀ x ∈ es, x.length = ew
  len : es.length < 256 ^ lw

theorem LNode.size {t u ew lw es} (N : LNode t u ew lw es) : (encode t u).length = lw + es.length * ew := by
  rw [N.enc, List.length_append, leN_length, flatten_width ew es N.wid]

theorem LNode.rdlen {s v p t u m ew lw es} (F : Focus s v p t u m) (N : LNode t u ew lw es) :
    rdN m.bytes (offsetOf s v p) lw = es.length := by
  have := enc_rdN p s v t u F.good F.res 0 lw (by rw [N.size]; omega)
  rw [Nat.add_zero] at this
  rw [F.bytes, this, N.enc, rdN_leN_zero lw _ _ N.len]

/-- `List::insert_all` (also behind `Set`/`Map`/`UnsizedString`): stores in bounds, data only grows. -/
theorem listInsertAllS_ok {s v p t u m ew lw es} (F : Focus s v p t u m) (c : Calm m) (N : LNode t u ew lw es)
    (idx : Nat) (items : List (List Nat)) (hit : ∀ x ∈ items, x.length = ew) :
    ∃ L, StepOk m (listInsertAllS ⟨s, p⟩ ew lw (offsetOf s v p) idx items m) L ∧ m.bytes.length ≤ L ∧
      ((listInsertAllS ⟨s, p⟩ ew lw (offsetOf s v p) idx items m).1.2 = .ok () → L = m.bytes.length + ew * items.length) := by
  obtain ⟨hcap, hsmall⟩ := c.cap_ok
  have hin := F.inside
  have hsz := N.size
  unfold listInsertAllS
  simp only [N.rdlen F]
  split
  · exact ⟨_, StepOk.nil m _ hcap, Nat.le_refl _, by intro h; cases h⟩
  · rename_i hidx
    split
    · exact ⟨_, StepOk.nil m _ hcap, Nat.le_refl _, by intro h; cases h⟩
    · have hk : lw + idx * ew ≤ (encode t u).length := by
        rw [hsz]; have := Nat.mul_le_mul_right ew (Nat.not_lt.mp hidx); omega
      have hpos : offsetOf s v p + lw + idx * ew = offsetOf s v p + (lw + idx * ew) := by omega
      rw [hpos]
      rcases addBytesNS_focus F (lw + idx * ew) (ew * items.length) hk hcap hsmall with
        ⟨m1, ev, hx, hS⟩ | ⟨m1, e, ev, hx, hS, _⟩
      · rw [hx]
        simp only []
        have hfl : items.flatten.length = ew * items.length := by
          rw [flatten_width ew items hit, Nat.mul_comm]
        have h1 := hS.add_store (β := Unit) (offsetOf s v p) (leN lw (es.length + items.length))
          (by rw [leN_length]; omega) (.ok ())
        have h2 := h1.add_store (β := Unit) (offsetOf s v p + (lw + idx * ew)) items.flatten
          (by rw [hfl]; omega) (.ok ())
        refine ⟨m.bytes.length + ew * items.length, ?_, Nat.le_add_right _ _, fun _ => rfl⟩
        simpa [List.append_assoc] using h2
      · rw [hx]
        exact ⟨_, hS, Nat.le_refl _, by intro h; cases h⟩

/-- `List::remove_range`: stores in bounds, data only shrinks. -/
theorem listRemoveRangeS_ok {s v p t u m ew lw es} (F : Focus s v p t u m) (c : Calm m) (N : LNode t u ew lw es)
    (lo hi : Nat) :
    ∃ L, StepOk m (listRemoveRangeS ⟨s, p⟩ ew lw (offsetOf s v p) lo hi m) L ∧ L ≤ m.bytes.length := by
  obtain ⟨hcap, hsmall⟩ := c.cap_ok
  have hin := F.inside
  have hsz := N.size
  unfold listRemoveRangeS
  simp only [N.rdlen F]
  split
  · exact ⟨_, StepOk.nil m _ hcap, Nat.le_refl _⟩
  · rename_i hlo
    split
    · exact ⟨_, StepOk.nil m _ hcap, Nat.le_refl _⟩
    · rename_i hhi
      have hm1 : lo * ew ≤ hi * ew := Nat.mul_le_mul_right ew (Nat.not_lt.mp hlo)
      have hm2 : hi * ew ≤ es.length * ew := Nat.mul_le_mul_right ew (Nat.not_lt.mp hhi)
      have hp1 : offsetOf s v p + lw + lo * ew = offsetOf s v p + (lw + lo * ew) := by omega
      have hp2 : offsetOf s v p + lw + hi * ew = offsetOf s v p + (lw + hi * ew) := by omega
      rw [hp1, hp2]
      obtain ⟨m1, ev, hx, hS⟩ := removeBytesNS_focus F (lw + lo * ew) (lw + hi * ew) (by omega) (by omega) hcap
      rw [hx]
      simp only []
      have h1 := hS.add_store (β := Unit) (offsetOf s v p) (leN lw (es.length - (hi - lo)))
        (by rw [leN_length]; omega) (.ok ())
      exact ⟨_, h1, by omega⟩

theorem listPopS_ok {s v p t u m ew lw es} (F : Focus s v p t u m) (c : Calm m) (N : LNode t u ew lw es) :
    ∃ L, StepOk m (listPopS ⟨s, p⟩ ew lw (offsetOf s v p) m) L ∧ L ≤ m.bytes.length := by
  unfold listPopS
  simp only []
  split
  · exact ⟨_, StepOk.nil m _ c.cap_ok.1, Nat.le_refl _⟩
  · obtain ⟨L, h1, h2⟩ := listRemoveRangeS_ok F c N (rdN m.bytes (offsetOf s v p) lw - 1) (rdN m.bytes (offsetOf s v p) lw)
    generalize listRemoveRangeS ⟨s, p⟩ ew lw (offsetOf s v p) (rdN m.bytes (offsetOf s v p) lw - 1)
      (rdN m.bytes (offsetOf s v p) lw) m = x at *
    rcases x with ⟨⟨m1, r⟩, ev⟩
    cases r with
    | error e => exact ⟨L, h1.retag _, h2⟩
    | ok uu => cases uu; exact ⟨L, h1.retag _, h2⟩

theorem listClearS_ok {s v p t u m ew lw es} (F : Focus s v p t u m) (c : Calm m) (N : LNode t u ew lw es) :
    ∃ L, StepOk m (listClearS ⟨s, p⟩ ew lw (offsetOf s v p) m) L ∧ L ≤ m.bytes.length :=
  listRemoveRangeS_ok F c N 0 _

/-! ## `set_data_inner`, `RemainingBytes::set_len` -/

theorem setDataInnerS_ok {s v p t u m} (F : Focus s v p t u m) (c : Calm m) (newBytes : List Nat) (fails : Bool) :
    ∃ L, StepOk m (setDataInnerS ⟨s, p⟩ t (offsetOf s v p) newBytes fails m) L := by
  obtain ⟨hcap, hsmall⟩ := c.cap_ok
  have hin := F.inside
  unfold setDataInnerS
  rw [extent_at F]
  simp only []
  by_cases h1 : (encode t u).length < newBytes.length
  · simp only [h1, ↓reduceIte]
    rcases addBytesNS_focus F 0 (newBytes.length - (encode t u).length) (Nat.zero_le _) hcap hsmall with
      ⟨m1, ev, hx, hS⟩ | ⟨m1, e, ev, hx, hS, _⟩
    · simp only [Nat.add_zero] at hx ⊢
      rw [hx]
      simp only []
      split
      · exact ⟨_, hS.retag _⟩
      · exact ⟨_, hS.add_store (β := Unit) _ newBytes (by omega) (.ok ())⟩
    · simp only [Nat.add_zero] at hx ⊢
      rw [hx]
      exact ⟨_, hS⟩
  · by_cases h2 : newBytes.length < (encode t u).length
    · simp only [h1, h2, ↓reduceIte]
      obtain ⟨m1, ev, hx, hS⟩ := removeBytesNS_focus F 0 ((encode t u).length - newBytes.length) (Nat.zero_le _)
        (by omega) hcap
      simp only [Nat.add_zero] at hx
      rw [hx]
      simp only []
      split
      · exact ⟨_, hS.retag _⟩
      · exact ⟨_, hS.add_store (β := Unit) _ newBytes (by omega) (.ok ())⟩
    · simp only [h1, h2, ↓reduceIte]
      split
      · exact ⟨_, (StepOk.nil m (.ok ()) hcap).retag _⟩
      · have := (StepOk.nil (α := Unit) m (.ok ()) hcap).add_store (β := Unit) (offsetOf s v p) newBytes (by omega) (.ok ())
        exact ⟨_, by simpa using this⟩

theorem remSetLenS_ok {s v p u m} (F : Focus s v p .rem u m) (c : Calm m) (n : Nat) :
    ∃ L, StepOk m (remSetLenS ⟨s, p⟩ (offsetOf s v p) n m) L := by
  obtain ⟨hcap, hsmall⟩ := c.cap_ok
  obtain ⟨A, hA, hE⟩ := tail_zst p s v .rem u F.good F.res rfl
  have hlen : m.bytes.length - offsetOf s v p = (encode Shape.rem u).length := by
    rw [F.bytes, hE]; simp only [List.length_append]; omega
  unfold remSetLenS
  simp only [hlen]
  split
  · rcases addBytesNS_focus F (encode Shape.rem u).length (n - (encode Shape.rem u).length) (Nat.le_refl _) hcap hsmall with
      ⟨m1, ev, hx, hS⟩ | ⟨m1, e, ev, hx, hS, _⟩
    · rw [hx]; exact ⟨_, hS⟩
    · rw [hx]; exact ⟨_, hS⟩
  · split
    · exact ⟨_, StepOk.nil m _ hcap⟩
    · obtain ⟨m1, ev, hx, hS⟩ := removeBytesNS_focus F n (encode Shape.rem u).length (by omega) (Nat.le_refl _) hcap
      rw [hx]; exact ⟨_, hS⟩

/-! ## Offset-table rewrites and initialisers of `UnsizedList` -/

theorem shiftOffsetsS_ok (cap L cw : Nat) (neg : Bool) (amt : Nat) (hcw : 4 ≤ cw) : ∀ (n pos : Nat) (bs : List Nat),
    bs.length = L → pos + n * cw ≤ L →
    evsOkS cap L (shiftOffsetsS cw neg amt pos n bs).2 = true ∧ (shiftOffsetsS cw neg amt pos n bs).1.length = L := by
  intro n
  induction n with
  | zero => intro pos bs h _; exact ⟨rfl, h⟩
  | succ n ih =>
    intro pos bs h hp
    simp only [shiftOffsetsS]
    rw [Nat.succ_mul] at hp
    have hw : (wr bs pos (leN 4 (applyDelta neg amt (rd32 bs pos)))).length = L := by
      rw [wr_length' _ _ _ (by rw [leN_length]; omega)]; exact h
    obtain ⟨i1, i2⟩ := ih (pos + cw) _ hw (by omega)
    refine ⟨?_, i2⟩
    simp only [evsOkS, leN_length, Bool.and_eq_true, decide_eq_true_eq]
    exact ⟨by omega, i1⟩

theorem adjustOffsetsS_ok (cap L cw base len start : Nat) (neg : Bool) (amt : Nat) (bs : List Nat) (hcw : 4 ≤ cw)
    (hl : bs.length = L) (hin : base + 8 + len * cw ≤ L) :
    evsOkS cap L (adjustOffsetsS cw base len start neg amt bs).2 = true ∧
    storesOnly (adjustOffsetsS cw base len start neg amt bs).2 = true ∧
    ∀ out, (adjustOffsetsS cw base len start neg amt bs).1 = .ok out → out.length = L := by
  have hso := (adjustOffsetsS_spec cw base len start neg amt bs).2
  refine ⟨?_, hso, ?_⟩
  · unfold adjustOffsetsS
    split
    · rfl
    · split
      · rfl
      · split
        · rfl
        · rename_i h2
          have hb : base + 8 + start * cw + (len - start) * cw ≤ L := by
            have : start * cw + (len - start) * cw = len * cw := by
              rw [← Nat.add_mul]; congr 1; omega
            omega
          split
          · split
            · rfl
            · exact (shiftOffsetsS_ok cap L cw true amt hcw _ _ bs hl hb).1
          · split
            · rfl
            · exact (shiftOffsetsS_ok cap L cw false amt hcw _ _ bs hl hb).1
  · intro out h
    unfold adjustOffsetsS at h
    split at h
    · cases h; exact hl
    · split at h
      · cases h; exact hl
      · split at h
        · cases h; exact hl
        · rename_i h2
          have hb : base + 8 + start * cw + (len - start) * cw ≤ L := by
            have : start * cw + (len - start) * cw = len * cw := by
              rw [← Nat.add_mul]; congr 1; omega
            omega
          split at h
          · split at h
            · cases h
            · cases h; exact (shiftOffsetsS_ok cap L cw true amt hcw _ _ bs hl hb).2
          · split at h
            · cases h
            · cases h; exact (shiftOffsetsS_ok cap L cw false amt hcw _ _ bs hl hb).2

theorem ulistFillS_ok (cap L cw sz : Nat) (key img : List Nat) (hk : (leN 4 0 ++ key).length = cw)
    (himg : img.length = sz) : ∀ (n pos dpos off : Nat) (bs : List Nat),
    bs.length = L → pos + n * cw ≤ L → dpos + n * sz ≤ L →
    evsOkS cap L (ulistFillS cw sz key img n pos dpos off bs).2 = true ∧
    (ulistFillS cw sz key img n pos dpos off bs).1.length = L := by
  have hkl : ∀ o, (leN 4 o ++ key).length = cw := by
    intro o; simp only [List.length_append, leN_length] at hk ⊢; exact hk
  intro n
  induction n with
  | zero => intro pos dpos off bs h _ _; exact ⟨rfl, h⟩
  | succ n ih =>
    intro pos dpos off bs h hp hd
    simp only [ulistFillS]
    rw [Nat.succ_mul] at hp hd
    have hw1 : (wr bs dpos img).length = L := by rw [wr_length' _ _ _ (by omega)]; exact h
    have hw2 : (wr (wr bs dpos img) pos (leN 4 off ++ key)).length = L := by
      rw [wr_length' _ _ _ (by rw [hkl, hw1]; omega)]; exact hw1
    obtain ⟨i1, i2⟩ := ih (pos + cw) (dpos + sz) (off + sz) _ hw2 (by omega) (by omega)
    refine ⟨?_, i2⟩
    simp only [evsOkS, hkl, Bool.and_eq_true, decide_eq_true_eq]
    exact ⟨by omega, by omega, i1⟩

/-! ## `UnsizedList` / `UnsizedMap` nodes -/

theorem ulistInsertS_ok {s v p t u m kw keys datas} (F : Focus s v p t u m) (c : Calm m)
    (N : UNode t u kw keys datas) (e : Shape) (idx n : Nat) (init : Init) (key : List Nat)
    (hkey : key.length = kw) (hsz : initFails e init = false → (initBytes e init).length = initSize e init) :
    ∃ L, StepOk m (ulistInsertS ⟨s, p⟩ (4 + kw) e (offsetOf s v p) idx n init key m) L ∧ m.bytes.length ≤ L := by
  obtain ⟨hcap, hsmall⟩ := c.cap_ok
  have hsm : m.bytes.length < Shape.u32Lim := by omega
  obtain ⟨_, hr2, _⟩ := u_reads F N hsm
  have hin := F.inside
  have hNs := N.size
  unfold ulistInsertS
  simp only [hr2]
  split
  · exact ⟨_, StepOk.nil m _ hcap, Nat.le_refl _⟩
  · rename_i hidx
    have hidx' : idx ≤ datas.length := Nat.not_lt.mp hidx
    rw [u_offset F N hsm idx hidx']
    obtain ⟨O, hO⟩ : ∃ O, O = ((datas.map List.length).take idx).sum := ⟨_, rfl⟩
    have hOle : O ≤ (datas.map List.length).sum := by rw [hO]; exact sum_take_le _ _
    rw [← hO]
    obtain ⟨sz, hszd⟩ : ∃ x, x = initSize e init := ⟨_, rfl⟩
    rw [← hszd] at hsz ⊢
    have hpos : offsetOf s v p + 8 + datas.length * (4 + kw) + 4 + O
        = offsetOf s v p + (12 + datas.length * (4 + kw) + O) := by omega
    rw [hpos]
    rcases addBytesNS_focus F (12 + datas.length * (4 + kw) + O) ((sz + (4 + kw)) * n) (by omega) hcap hsmall with
      ⟨m1, ev, hx, hS⟩ | ⟨m1, er, ev, hx, hS, _⟩
    · rw [hx]
      -- arithmetic atoms
      have e1 : (sz + (4 + kw)) * n = n * sz + n * (4 + kw) := by
        rw [Nat.add_mul, Nat.mul_comm sz n, Nat.mul_comm (4 + kw) n]
      have e2 : (datas.length + n) * (4 + kw) = datas.length * (4 + kw) + n * (4 + kw) := Nat.add_mul ..
      have e3 : idx * (4 + kw) ≤ datas.length * (4 + kw) := Nat.mul_le_mul_right _ hidx'
      rw [e1] at hS hx
      simp only [e2, wr32]
      have hA := hS.add_move (β := Unit) (offsetOf s v p + 8 + idx * (4 + kw) + n * (4 + kw)) (offsetOf s v p + 8 + idx * (4 + kw))
        (offsetOf s v p + (12 + datas.length * (4 + kw) + O) - (offsetOf s v p + 8 + idx * (4 + kw))) (by omega) (by omega) (.error .arith)
      split
      · exact ⟨_, by simpa [e1] using hA, by omega⟩
      · have hB := hA.add_store (β := Unit) (offsetOf s v p + 4) (leN 4 (datas.length + n)) (by rw [leN_length]; omega)
          (.ok ())
        have hC := hB.add_store (β := Unit) (offsetOf s v p + 8 + (datas.length * (4 + kw) + n * (4 + kw))) (leN 4 (datas.length + n))
          (by rw [leN_length]; omega) (.ok ())
        simp only [] at hC
        generalize hbs3 : wr (wr (memmove m1.bytes (offsetOf s v p + 8 + idx * (4 + kw) + n * (4 + kw)) (offsetOf s v p + 8 + idx * (4 + kw))
          (offsetOf s v p + (12 + datas.length * (4 + kw) + O) - (offsetOf s v p + 8 + idx * (4 + kw)))) (offsetOf s v p + 4) (leN 4 (datas.length + n)))
          (offsetOf s v p + 8 + (datas.length * (4 + kw) + n * (4 + kw))) (leN 4 (datas.length + n)) = bs3 at hC ⊢
        have hD := hC.add_store (β := Unit) (offsetOf s v p) (leN 4 (rd32 bs3 (offsetOf s v p) + n * sz))
          (by rw [leN_length]; omega) (.ok ())
        simp only [] at hD
        generalize hbs4 : wr bs3 (offsetOf s v p) (leN 4 (rd32 bs3 (offsetOf s v p) + n * sz)) = bs4 at hD ⊢
        have hl4 : bs4.length = m.bytes.length + (n * sz + n * (4 + kw)) := hD.len
        obtain ⟨a1, a2, a3⟩ := adjustOffsetsS_ok m.cap (m.bytes.length + (n * sz + n * (4 + kw))) (4 + kw) (offsetOf s v p)
          (datas.length + n) (idx + n) false (n * sz) bs4 (by omega) hl4 (by rw [e2]; omega)
        generalize adjustOffsetsS (4 + kw) (offsetOf s v p) (datas.length + n) (idx + n) false (n * sz) bs4 = ao at *
        rcases ao with ⟨r5, ev3⟩
        cases r5 with
        | error er =>
          have hE := hD.add_stores (β := Unit) ev3 bs4 a2 a1 hl4 (.error er)
          exact ⟨_, by simpa [List.append_assoc, e1] using hE, by omega⟩
        | ok bs5 =>
          have hl5 := a3 bs5 rfl
          have hE := hD.add_stores (β := Unit) ev3 bs5 a2 a1 hl5 (.ok ())
          simp only []
          split
          · exact ⟨_, by simpa [List.append_assoc, e1] using hE, by omega⟩
          · split
            · exact ⟨_, by simpa [List.append_assoc, e1] using hE.retag (.error .initFail), by omega⟩
            · rename_i hnf
              have himg := hsz (by simpa using hnf)
              obtain ⟨f1, f2⟩ := ulistFillS_ok m.cap (m.bytes.length + (n * sz + n * (4 + kw))) (4 + kw) sz key (initBytes e init)
                (by simp [hkey]) himg n (offsetOf s v p + 8 + idx * (4 + kw)) (offsetOf s v p + 8 + (datas.length * (4 + kw) + n * (4 + kw)) + 4 + O) O bs5 hl5
                (by omega) (by omega)
              have f3 := (ulistFillS_spec (4 + kw) sz key (initBytes e init) n (offsetOf s v p + 8 + idx * (4 + kw))
                (offsetOf s v p + 8 + (datas.length * (4 + kw) + n * (4 + kw)) + 4 + O) O bs5).2
              generalize ulistFillS (4 + kw) sz key (initBytes e init) n (offsetOf s v p + 8 + idx * (4 + kw))
                (offsetOf s v p + 8 + (datas.length * (4 + kw) + n * (4 + kw)) + 4 + O) O bs5 = fo at *
              rcases fo with ⟨bs6, ev4⟩
              have hF := hE.add_stores (β := Unit) ev4 bs6 f3 f1 f2 (.ok ())
              exact ⟨_, by simpa [List.append_assoc, e1] using hF, by omega⟩
    · rw [hx]
      exact ⟨_, hS, Nat.le_refl _⟩

theorem ulistClearS_ok {s v p t u m kw keys datas} (F : Focus s v p t u m) (c : Calm m)
    (N : UNode t u kw keys datas) :
    ∃ L, StepOk m (ulistClearS ⟨s, p⟩ (4 + kw) (offsetOf s v p) m) L ∧ L ≤ m.bytes.length := by
  obtain ⟨hcap, hsmall⟩ := c.cap_ok
  have hsm : m.bytes.length < Shape.u32Lim := by omega
  obtain ⟨hr1, hr2, _⟩ := u_reads F N hsm
  have hin := F.inside
  have hNs := N.size
  unfold ulistClearS
  simp only [hr1, hr2]
  have hp1 : offsetOf s v p + 8 + 4 = offsetOf s v p + 12 := by omega
  have hp2 : offsetOf s v p + 8 + datas.length * (4 + kw) + 4 + (datas.map List.length).sum
      = offsetOf s v p + (encode t u).length := by omega
  rw [hp1, hp2]
  obtain ⟨m1, ev, hx, hS⟩ := removeBytesNS_focus F 12 (encode t u).length (by omega) (Nat.le_refl _) hcap
  rw [hx]
  simp only [wr32]
  have h1 := hS.add_store (β := Unit) (offsetOf s v p + 4) (leN 4 0) (by rw [leN_length]; omega) (.ok ())
  have h2 := h1.add_store (β := Unit) (offsetOf s v p + 8) (leN 4 0) (by rw [leN_length]; omega) (.ok ())
  have h3 := h2.add_store (β := Unit) (offsetOf s v p) (leN 4 0) (by rw [leN_length]; omega) (.ok ())
  exact ⟨_, by simpa [List.append_assoc] using h3, by omega⟩

/-- A raw `memmove` performed BEFORE the call `x` (same data length, same allocation). -/
theorem StepOk.prepend_move {α : Type} {m m' : Mem} {x : TracedS α} {L : Nat}
    (h : StepOk m' x L) (hl : m'.bytes.length = m.bytes.length) (ho : m'.orig = m.orig)
    (d s n : Nat) (hd : d + n ≤ m.bytes.length) (hs : s + n ≤ m.bytes.length) :
    StepOk m ((x.1, [.raw (.move d s n)] ++ x.2) : TracedS α) L := by
  have hc : m'.cap = m.cap := by simp only [Mem.cap, ho]
  refine ⟨?_, ?_, ?_, h.len, by rw [h.orig, ho], by rw [← hc]; exact h.cap⟩
  · simp only [List.singleton_append, evsOkS, hd, hs, decide_true, Bool.true_and]
    rw [← hc, ← hl]; exact h.ok
  · simp only [List.singleton_append, rawOf_raw, lenAfter]; rw [← hl]; exact h.lenAfter
  · simp only [List.singleton_append, rawOf_raw, maxLen]; rw [← hl]; exact h.maxl

theorem ulistRemoveRangeS_ok {s v p t u m kw keys datas} (F : Focus s v p t u m) (c : Calm m)
    (N : UNode t u kw keys datas) (lo hi : Nat) :
    ∃ L, StepOk m (ulistRemoveRangeS ⟨s, p⟩ (4 + kw) (offsetOf s v p) lo hi m) L ∧ L ≤ m.bytes.length := by
  obtain ⟨hcap, hsmall⟩ := c.cap_ok
  have hsm : m.bytes.length < Shape.u32Lim := by omega
  obtain ⟨hr1, hr2, _⟩ := u_reads F N hsm
  have hin := F.inside
  have hNs := N.size
  unfold ulistRemoveRangeS
  simp only [hr2]
  split
  · exact ulistClearS_ok F c N
  · split
    · exact ⟨_, StepOk.nil m _ hcap, Nat.le_refl _⟩
    · rename_i hlo
      split
      · exact ⟨_, StepOk.nil m _ hcap, Nat.le_refl _⟩
      · rename_i hhi
        have hlo' : lo ≤ hi := Nat.not_lt.mp hlo
        have hhi' : hi ≤ datas.length := Nat.not_lt.mp hhi
        rw [u_offset F N hsm lo (by omega), u_offset F N hsm hi hhi']
        obtain ⟨so, hso⟩ : ∃ x, x = ((datas.map List.length).take lo).sum := ⟨_, rfl⟩
        obtain ⟨eo, heo⟩ : ∃ x, x = ((datas.map List.length).take hi).sum := ⟨_, rfl⟩
        have h1 : so ≤ eo := by rw [hso, heo]; exact sum_take_mono _ _ _ hlo'
        have h2 : eo ≤ (datas.map List.length).sum := by rw [heo]; exact sum_take_le _ _
        rw [← hso, ← heo]
        have e1 : lo * (4 + kw) ≤ hi * (4 + kw) := Nat.mul_le_mul_right _ hlo'
        have e2 : hi * (4 + kw) ≤ datas.length * (4 + kw) := Nat.mul_le_mul_right _ hhi'
        have e3 : (4 + kw) * (hi - lo) = hi * (4 + kw) - lo * (4 + kw) := by
          rw [Nat.mul_comm, Nat.sub_mul]
        have e4 : (datas.length - (hi - lo)) * (4 + kw) = datas.length * (4 + kw) - (hi * (4 + kw) - lo * (4 + kw)) := by
          rw [Nat.sub_mul, Nat.sub_mul]
        -- the table shift happens inside the node
        obtain ⟨cnt, hcnt⟩ : ∃ x, x = offsetOf s v p + 8 + datas.length * (4 + kw) + 4 + so
            - (offsetOf s v p + 8 + hi * (4 + kw)) := ⟨_, rfl⟩
        rw [← hcnt]
        have hcnt' : 8 + hi * (4 + kw) + cnt = 12 + datas.length * (4 + kw) + so := by omega
        have hrd : rd m.bytes (offsetOf s v p + 8 + hi * (4 + kw)) cnt = rd (encode t u) (8 + hi * (4 + kw)) cnt := by
          rw [F.bytes, Nat.add_assoc, enc_rd p s v t u F.good F.res _ _ (by omega)]
        have hrdl : (rd (encode t u) (8 + hi * (4 + kw)) cnt).length = cnt := by
          unfold rd; simp only [List.length_take, List.length_drop]; omega
        have hbs1 : memmove m.bytes (offsetOf s v p + 8 + lo * (4 + kw)) (offsetOf s v p + 8 + hi * (4 + kw)) cnt
            = plug s v p (wr (encode t u) (8 + lo * (4 + kw)) (rd (encode t u) (8 + hi * (4 + kw)) cnt)) := by
          unfold memmove
          rw [hrd, F.bytes, Nat.add_assoc, enc_wr p s v t u F.good F.res _ _ (by rw [hrdl]; omega)]
        obtain ⟨X0, hX0⟩ : ∃ X, X = wr (encode t u) (8 + lo * (4 + kw)) (rd (encode t u) (8 + hi * (4 + kw)) cnt) :=
          ⟨_, rfl⟩
        have hX0l : X0.length = (encode t u).length := by
          rw [hX0, wr_length' _ _ _ (by rw [hrdl]; omega)]
        rw [hbs1, ← hX0]
        have hp1 : offsetOf s v p + 8 + datas.length * (4 + kw) + 4 + so - (4 + kw) * (hi - lo)
            = offsetOf s v p + (12 + datas.length * (4 + kw) + so - (4 + kw) * (hi - lo)) := by omega
        have hp2 : offsetOf s v p + 8 + datas.length * (4 + kw) + 4 + eo
            = offsetOf s v p + (12 + datas.length * (4 + kw) + eo) := by omega
        rw [hp1, hp2]
        have hpl0 := plug_length p s v t u F.good F.res X0
        have hml : (plug s v p X0).length = m.bytes.length := by rw [F.bytes]; omega
        obtain ⟨m1, ev, hx, hS, _⟩ := removeBytesNS_plug F.good F.res ({ m with bytes := plug s v p X0 } : Mem) X0 hX0l rfl
          (12 + datas.length * (4 + kw) + so - (4 + kw) * (hi - lo)) (12 + datas.length * (4 + kw) + eo)
          (by omega) (by omega) (by simp only [Mem.cap] at hcap ⊢; omega)
        rw [hx]
        simp only [wr32]
        have hd : offsetOf s v p + 8 + lo * (4 + kw) + cnt ≤ m.bytes.length := by omega
        have hs : offsetOf s v p + 8 + hi * (4 + kw) + cnt ≤ m.bytes.length := by omega
        have hA := hS.prepend_move (m := m) hml rfl _ _ _ hd hs
        simp only [] at hA
        rw [hml] at hA
        have hL : offsetOf s v p + 12 + (datas.length * (4 + kw) - (hi * (4 + kw) - lo * (4 + kw)))
            ≤ m.bytes.length - (12 + datas.length * (4 + kw) + eo
              - (12 + datas.length * (4 + kw) + so - (4 + kw) * (hi - lo))) := by omega
        have hB := hA.add_store (β := Unit) (offsetOf s v p + 4) (leN 4 (datas.length - (hi - lo)))
          (by rw [leN_length]; omega) (.ok ())
        have hC := hB.add_store (β := Unit) (offsetOf s v p + 8 + (datas.length - (hi - lo)) * (4 + kw))
          (leN 4 (datas.length - (hi - lo))) (by rw [leN_length, e4]; omega) (.ok ())
        simp only [] at hC
        generalize hbs3 : wr (wr m1.bytes (offsetOf s v p + 4) (leN 4 (datas.length - (hi - lo))))
          (offsetOf s v p + 8 + (datas.length - (hi - lo)) * (4 + kw)) (leN 4 (datas.length - (hi - lo))) = bs3 at hC ⊢
        have hD := hC.add_store (β := Unit) (offsetOf s v p) (leN 4 (rd32 bs3 (offsetOf s v p) - (eo - so)))
          (by rw [leN_length]; omega) (.ok ())
        simp only [] at hD
        generalize hbs4 : wr bs3 (offsetOf s v p) (leN 4 (rd32 bs3 (offsetOf s v p) - (eo - so))) = bs4 at hD ⊢
        have hl4 := hD.len
        simp only [] at hl4
        obtain ⟨a1, a2, a3⟩ := adjustOffsetsS_ok m.cap _ (4 + kw) (offsetOf s v p)
          (datas.length - (hi - lo)) lo true (eo - so) bs4 (by omega) hl4 (by rw [e4]; omega)
        generalize adjustOffsetsS (4 + kw) (offsetOf s v p) (datas.length - (hi - lo)) lo true (eo - so) bs4 = ao at *
        rcases ao with ⟨r5, ev3⟩
        cases r5 with
        | error er =>
          have hE := hD.add_stores (β := Unit) ev3 bs4 a2 a1 hl4 (.error er)
          exact ⟨_, by simpa [List.append_assoc] using hE, by omega⟩
        | ok bs5 =>
          have hE := hD.add_stores (β := Unit) ev3 bs5 a2 a1 (a3 bs5 rfl) (.ok ())
          exact ⟨_, by simpa [List.append_assoc] using hE, by omega⟩

theorem ulistPopS_ok {s v p t u m kw keys datas} (F : Focus s v p t u m) (c : Calm m)
    (N : UNode t u kw keys datas) :
    ∃ L, StepOk m (ulistPopS ⟨s, p⟩ (4 + kw) (offsetOf s v p) m) L ∧ L ≤ m.bytes.length := by
  unfold ulistPopS
  simp only []
  split
  · exact ⟨_, StepOk.nil m _ c.cap_ok.1, Nat.le_refl _⟩
  · obtain ⟨L, h1, h2⟩ := ulistRemoveRangeS_ok F c N (rd32 m.bytes (offsetOf s v p + 4) - 1) (rd32 m.bytes (offsetOf s v p + 4))
    generalize ulistRemoveRangeS ⟨s, p⟩ (4 + kw) (offsetOf s v p) (rd32 m.bytes (offsetOf s v p + 4) - 1)
      (rd32 m.bytes (offsetOf s v p + 4)) m = x at *
    rcases x with ⟨⟨m1, r⟩, ev⟩
    cases r with
    | error e => exact ⟨L, h1.retag _, h2⟩
    | ok uu => cases uu; exact ⟨L, h1.retag _, h2⟩

end Unsized.Machine
