import Unsized.MachineNodeList
/-!
# Node-level refinement: fixed payloads, struct prefix writes, enum variant switches,
`RemainingBytes`; and `subst_subst`
-/
namespace Unsized.Machine
open Common Unsized Unsized.Text

/-- Ops on a fixed-size node (enum payload). -/
theorem fixed_refines {s v p m} {f : Fixed} {l : List Nat}
    (F : Focus s v p (.fixed f) (.bytes l) m) (c : Calm m) (op : Op) :
    Refines s v p (.fixed f) (.bytes l) m op := by
  cases op with
  | touch => exact touch_refines F
  | replace nv => exact replace_refines F c nv
  | reset => exact reset_refines F c
  | write h =>
    unfold Refines
    simp only [Spec.applyNode, applyAt]
    by_cases hx : validE f h = true
    · simp only [hx, if_true]
      intro hroom
      obtain ⟨_, hv, _⟩ := F.sub
      simp only [valid, Bool.and_eq_true, beq_iff_eq, decide_eq_true_eq] at hv
      have hx' := hx
      simp only [validE, Bool.and_eq_true, beq_iff_eq, decide_eq_true_eq] at hx'
      have hw := enc_wr p s v _ _ F.good F.res h 0 (by simp [encode, hv.1.1, hx'.1.1])
      rw [Nat.add_zero] at hw
      have hb : wr m.bytes (offsetOf s v p) h = plug s v p (encode (.fixed f) (.bytes h)) := by
        rw [F.bytes, hw]
        have := wr_zero l h [] (by rw [hv.1.1, hx'.1.1])
        simp only [List.append_nil] at this
        simp only [encode, this]
      have g' : Good (.fixed f) (.bytes h) :=
        ⟨F.sub.ok, by simpa [valid, validE] using hx, by simp [fits]⟩
      refine ⟨_, rfl, F.finish _ g' _ hb ?_, rfl, rfl⟩
      simp only []; rw [hb]; exact F.small c _ hroom
    · simp [hx]
  | _ => unfold Refines; simp [Spec.applyNode, applyAt]


/-- Ops on a struct node (`write` = store into the sized prefix). -/
theorem struct_refines {s v p m} {sized : List Fixed} {fs : List Shape} {sz : List Nat} {vs : List Val}
    (F : Focus s v p (.struct sized fs) (.record sz vs) m) (c : Calm m) (op : Op) :
    Refines s v p (.struct sized fs) (.record sz vs) m op := by
  cases op with
  | touch => exact touch_refines F
  | replace nv => exact replace_refines F c nv
  | reset => exact reset_refines F c
  | write h =>
    unfold Refines
    simp only [Spec.applyNode, applyAt]
    by_cases hx : validE (.record sized) h = true
    · simp only [hx, if_true]
      intro hroom
      obtain ⟨hok, hv, hf⟩ := F.sub
      simp only [valid, Bool.and_eq_true, beq_iff_eq, decide_eq_true_eq] at hv
      have hx' := hx
      simp only [validE, Fixed.size, Fixed.valid, Bool.and_eq_true, beq_iff_eq, decide_eq_true_eq] at hx'
      have hw := enc_wr p s v _ _ F.good F.res h 0 (by simp [encode, hx'.1.1, ← hv.1.1.1])
      rw [Nat.add_zero] at hw
      have hb : wr m.bytes (offsetOf s v p) h = plug s v p (encode (.struct sized fs) (.record h vs)) := by
        rw [F.bytes, hw]
        simp only [encode]
        rw [wr_zero sz h _ (by rw [hv.1.1.1, hx'.1.1])]
      have g' : Good (.struct sized fs) (.record h vs) := by
        refine ⟨hok, ?_, by simpa [fits] using hf⟩
        simp only [valid, Bool.and_eq_true, beq_iff_eq, decide_eq_true_eq]
        exact ⟨⟨⟨hx'.1.1, hx'.1.2⟩, hx'.2⟩, hv.2⟩
      refine ⟨_, rfl, F.finish _ g' _ hb ?_, rfl, rfl⟩
      simp only []; rw [hb]; exact F.small c _ hroom
    · simp [hx]
  | _ => unfold Refines; simp [Spec.applyNode, applyAt]


theorem fitsVariant_default (ps : List Shape) (idx : Nat) :
    fitsVariant ps idx (denoteVariant ps idx .default) = true := by
  induction ps generalizing idx with
  | nil => simp [fitsVariant]
  | cons q qs ih =>
    cases idx with
    | zero => simp only [fitsVariant, denoteVariant]; exact fits_default q
    | succ i => simp only [fitsVariant, denoteVariant]; exact ih i

/-- Ops on an enum node (`set_variant` = `set_from_init` of the variant's default initialiser). -/
theorem enum_refines {s v p m} {ds : List Nat} {ps : List Shape} {idx : Nat} {pl : Val}
    (F : Focus s v p (.enum ds ps) (.variant idx pl) m) (c : Calm m) (op : Op) :
    Refines s v p (.enum ds ps) (.variant idx pl) m op := by
  cases op with
  | touch => exact touch_refines F
  | replace nv => exact replace_refines F c nv
  | reset => exact reset_refines F c
  | setVariant j =>
    unfold Refines
    simp only [Spec.applyNode, applyAt]
    by_cases hj : j < ds.length ∧ initOk (.enum ds ps) (.variant j .default) = true
    · simp only [hj, and_self, if_true]
      intro hroom
      have g' := good_denote F.sub.ok (.variant j .default) hj.2 (by
        simp only [denote, fits]; exact fitsVariant_default ps j)
      have he := (initP_all (.enum ds ps) (.variant j .default) hj.2).1
      obtain ⟨m', hm', F', ho, hr⟩ := setDataInner_refines F c _ g' hroom
      exact ⟨m', by rw [he, hm', unitRes_ok], F', ho, hr⟩
    · simp only [hj, if_false]; first | exact Or.inr rfl | exact Or.inr trivial | simp [composite]
  | _ => unfold Refines; simp [Spec.applyNode, applyAt]


theorem rem_tail {s v p m} {l : List Nat} (F : Focus s v p .rem (.bytes l) m) :
    m.bytes.length - offsetOf s v p = l.length ∧ m.bytes.drop (offsetOf s v p + l.length) = [] := by
  obtain ⟨A, hA, hE⟩ := tail_zst p s v .rem (.bytes l) F.good F.res rfl
  simp only [encode] at hE
  rw [F.bytes, hE]
  constructor
  · simp [hA]
  · rw [drop_append_add A _ _ _ hA.symm]; simp

/-- Ops on a `RemainingBytes` node. -/
theorem rem_refines {s v p m} {l : List Nat} (F : Focus s v p .rem (.bytes l) m) (c : Calm m) (op : Op) :
    Refines s v p .rem (.bytes l) m op := by
  obtain ⟨hcur, htail⟩ := rem_tail F
  have hE : encode .rem (.bytes l) = l := rfl
  have hwf : BytesWF l := by
    obtain ⟨_, hv, _⟩ := F.sub; simpa [valid] using hv
  cases op with
  | touch => exact touch_refines F
  | replace nv => exact replace_refines F c nv
  | reset => exact reset_refines F c
  | setLen n =>
    unfold Refines
    simp only [Spec.applyNode, applyAt, remSetLen, hcur]
    intro hroom
    have hpl := plug_length p s v _ _ F.good F.res (encode .rem (.bytes (l.take n ++ List.replicate (n - l.length) 0)))
    simp only [hE, encode, List.length_append, List.length_take, List.length_replicate] at hpl
    by_cases h1 : l.length < n
    · simp only [h1, if_true]
      obtain ⟨G, m1, hGd, hG, hadd, hb1, ho1, hr1⟩ := F.grow c l.length (n - l.length) (by simp [hE]) (by
        simp only [encode, List.length_append, List.length_take, List.length_replicate] at hroom; omega)
      rw [hadd]
      refine ⟨m1, by rw [unitRes_ok], ?_, ho1, hr1⟩
      have hGz : G = List.replicate (n - l.length) 0 := by
        rw [hGd, htail]; simp
      have g' : Good .rem (.bytes (l.take n ++ List.replicate (n - l.length) 0)) := by
        refine ⟨F.sub.ok, ?_, by simp [fits]⟩
        simp only [valid, decide_eq_true_eq, BytesWF_append]
        exact ⟨BytesWF_take n hwf, BytesWF_replicate (by omega)⟩
      apply F.finish _ g' m1
      · rw [hb1, hE, hGz]
        simp only [encode, List.take_of_length_le (Nat.le_refl _), List.drop_of_length_le (Nat.le_refl _),
          List.append_nil, List.take_of_length_le (Nat.le_of_lt h1)]
      · rw [hb1, hE, hGz]
        simp only [List.take_of_length_le (Nat.le_refl _), List.drop_of_length_le (Nat.le_refl _), List.append_nil]
        have := F.small c _ hroom
        simpa only [encode, List.take_of_length_le (Nat.le_of_lt h1)] using this
    · simp only [h1, if_false]
      by_cases h2 : l.length = n
      · rw [if_pos h2, unitRes_ok]
        have : l.take n ++ List.replicate (n - l.length) 0 = l := by
          rw [← h2]; simp
        rw [this]
        exact ⟨m, rfl, F.same, rfl, rfl⟩
      · rw [if_neg h2]
        obtain ⟨m1, hrem, hb1, ho1, hr1, _⟩ := F.shrink n l.length (by omega) (by simp [hE])
        rw [hrem]
        refine ⟨m1, by rw [unitRes_ok], ?_, ho1, hr1⟩
        have hnew : l.take n ++ List.replicate (n - l.length) 0 = l.take n := by
          have : n - l.length = 0 := by omega
          rw [this]; simp
        rw [hnew]
        have g' : Good .rem (.bytes (l.take n)) :=
          ⟨F.sub.ok, by simpa [valid] using BytesWF_take n hwf, by simp [fits]⟩
        have hX : (encode .rem (.bytes l)).take n ++ (encode .rem (.bytes l)).drop l.length = l.take n := by
          simp [hE]
        apply F.finish _ g' m1
        · rw [hb1, hX]; rfl
        · rw [hb1, hX]
          have := F.small c _ hroom
          rw [hnew] at this; exact this
  | set i x =>
    unfold Refines
    simp only [Spec.applyNode, applyAt, hcur]
    by_cases hx : (x.length == 1 && decide (BytesWF x)) = true
    · simp only [hx, if_true]
      have hx' := hx
      simp only [Bool.and_eq_true, beq_iff_eq, decide_eq_true_eq] at hx'
      by_cases hi : i < l.length
      · simp only [hi, if_true]
        intro hroom
        have hw := enc_wr p s v _ _ F.good F.res x i (by simp [hE, hx'.1]; omega)
        have hwl : wr l i x = l.take i ++ x ++ l.drop (i + 1) := by simp [wr, hx'.1]
        have hb : wr m.bytes (offsetOf s v p + i) x
            = plug s v p (encode .rem (.bytes (l.take i ++ x ++ l.drop (i + 1)))) := by
          rw [F.bytes, hw, hE, hwl]; rfl
        have g' : Good .rem (.bytes (l.take i ++ x ++ l.drop (i + 1))) := by
          refine ⟨F.sub.ok, ?_, by simp [fits]⟩
          simp only [valid, decide_eq_true_eq, BytesWF_append]
          exact ⟨⟨BytesWF_take i hwf, hx'.2⟩, BytesWF_drop (i + 1) hwf⟩
        refine ⟨_, rfl, F.finish _ g' _ hb ?_, rfl, rfl⟩
        simp only []; rw [hb]; exact F.small c _ hroom
      · simp only [hi, if_false]
        intro _
        exact ⟨m, rfl, F.same, rfl, rfl⟩
    · simp [hx]
  | _ => unfold Refines; simp [Spec.applyNode, applyAt]


theorem subst1_subst1 (s : Shape) (v : Val) (st : Step) (t : Shape) (u a b : Val)
    (h : resolve1 s v st = .ok (t, u)) : subst1 (subst1 v st a) st b = subst1 v st b := by
  unfold resolve1 at h
  split at h
  · split at h
    · cases h; simp [subst1, List.set_set]
    · cases h
  · split at h
    · cases h; simp [subst1, List.set_set]
    · cases h
  · rename_i kw e es i
    split at h
    · rename_i kx hx
      cases h
      have hi : i < es.length := by
        rcases Nat.lt_or_ge i es.length with h | h
        · exact h
        · simp [List.getElem?_eq_none h] at hx
      simp only [subst1, hx, List.getElem?_set_self hi, List.set_set]
    · cases h
  · split at h
    · cases h
    · cases h
    · cases h; simp [subst1]
  · cases h

theorem resolve1_subst1 (s : Shape) (v : Val) (st : Step) (t : Shape) (u a : Val)
    (h : resolve1 s v st = .ok (t, u)) : resolve1 s (subst1 v st a) st = .ok (t, a) := by
  unfold resolve1 at h ⊢
  split at h
  · rename_i sized fs sz vs i
    split at h
    · rename_i f x hf hx
      cases h
      have hi : i < vs.length := by
        rcases Nat.lt_or_ge i vs.length with h | h
        · exact h
        · simp [List.getElem?_eq_none h] at hx
      simp [subst1, hf, hi]
    · cases h
  · rename_i e vs i
    split at h
    · rename_i x hx
      cases h
      have hi : i < vs.length := by
        rcases Nat.lt_or_ge i vs.length with h | h
        · exact h
        · simp [List.getElem?_eq_none h] at hx
      simp [subst1, hi]
    · cases h
  · rename_i kw e es i
    split at h
    · rename_i kx hx
      cases h
      have hi : i < es.length := by
        rcases Nat.lt_or_ge i es.length with h | h
        · exact h
        · simp [List.getElem?_eq_none h] at hx
      simp [subst1, hx, hi]
    · cases h
  · rename_i ds ps idx pl
    split at h
    · cases h
    · cases h
    · rename_i t' hnu ht
      cases h
      simp only [subst1, ht]
  · cases h

/-- Replacing twice at the same path = replacing once. -/
theorem subst_subst (p : List Step) : ∀ (s : Shape) (v : Val) (t : Shape) (u a b : Val), Good s v →
    resolve s v p = .ok (t, u) → subst s (subst s v p a) p b = subst s v p b := by
  induction p with
  | nil => intro s v t u a b g h; simp [subst]
  | cons st p ih =>
    intro s v t u a b g h
    simp only [resolve] at h
    cases h1 : resolve1 s v st with
    | error e => simp [h1] at h
    | ok tu =>
      obtain ⟨t1, u1⟩ := tu
      simp only [h1] at h
      obtain ⟨g1, _, _, _⟩ := step_facts s v st t1 u1 g h1
      have hr1 := resolve1_subst1 s v st t1 u1 (subst t1 u1 p a) h1
      simp only [subst, h1, hr1, subst1_subst1 s v st t1 u1 _ _ h1, ih t1 u1 t u a b g1 h]

end Unsized.Machine
