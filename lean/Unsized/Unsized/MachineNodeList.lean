import Unsized.MachineLift
/-!
# Node-level refinement: the generic ops (`touch`, `replace`, `reset`) and every op on a `List` node
-/
namespace Unsized.Machine
open Common Unsized Unsized.Text

theorem unitRes_ok (m : Mem) : unitRes (m, .ok ()) = (m, .ok .unit) := rfl
theorem unitRes_err (m : Mem) (e : Err) : unitRes (m, .error e) = (m, .error e) := rfl

theorem good_of_WF {t : Shape} {u : Val} (hok : OkS t) (h : WF t u = true) : Good t u := by
  simp only [WF, Bool.and_eq_true] at h
  exact ⟨hok, h.1, h.2⟩

theorem set_getElem?_self {α : Type} (l : List α) (i : Nat) (x : α) (h : l[i]? = some x) : l.set i x = l := by
  apply List.ext_getElem (by simp)
  intro j h1 h2
  by_cases hji : i = j
  · subst hji
    have : l[i]? = some l[i] := List.getElem?_eq_getElem (by simpa using h1)
    rw [h] at this; simp [Option.some.inj this]
  · simp [List.getElem_set_ne hji]

theorem subst1_self (s : Shape) (v : Val) (st : Step) (t : Shape) (u : Val)
    (h : resolve1 s v st = .ok (t, u)) : subst1 v st u = v := by
  unfold resolve1 at h
  split at h
  · split at h
    · rename_i f x hf hx; cases h; simp [subst1, set_getElem?_self _ _ _ hx]
    · cases h
  · split at h
    · rename_i x hx; cases h; simp [subst1, set_getElem?_self _ _ _ hx]
    · cases h
  · split at h
    · rename_i kx hx; cases h
      simp only [subst1, hx]
      rw [set_getElem?_self _ _ _ hx]
    · cases h
  · split at h
    · cases h
    · cases h
    · cases h; simp [subst1]
  · cases h

theorem subst_self (p : List Step) : ∀ (s : Shape) (v : Val) (t : Shape) (u : Val),
    resolve s v p = .ok (t, u) → subst s v p u = v := by
  induction p with
  | nil => intro s v t u h; simp [resolve] at h; obtain ⟨rfl, rfl⟩ := h; rfl
  | cons st p ih =>
    intro s v t u h
    simp only [resolve] at h
    cases h1 : resolve1 s v st with
    | error e => simp [h1] at h
    | ok tu =>
      obtain ⟨t1, u1⟩ := tu
      simp only [h1] at h
      simp only [subst, h1, ih t1 u1 t u h, subst1_self s v st t1 u1 h1]

/-- Ops that leave value and bytes alone. -/
theorem Focus.same {s v p t u m} (F : Focus s v p t u m) : Focus s (subst s v p u) p t u m := by
  rw [subst_self p s v t u F.res]; exact F

/-- `touch`. -/
theorem touch_refines {s v p t u m} (F : Focus s v p t u m) : Refines s v p t u m .touch := by
  unfold Refines
  simp only [Spec.applyNode]
  intro _
  exact ⟨m, by simp [applyAt], F.same, rfl, rfl⟩

/-- `replace` (`set_from_owned`). -/
theorem replace_refines {s v p t u m} (F : Focus s v p t u m) (c : Calm m) (nv : Val) :
    Refines s v p t u m (.replace nv) := by
  unfold Refines
  simp only [Spec.applyNode]
  by_cases hwf : WF t nv = true
  · simp only [hwf, if_true]
    intro hroom
    obtain ⟨m', hm', F', ho, hr⟩ := setDataInner_refines F c nv (good_of_WF F.sub.ok hwf) hroom
    exact ⟨m', by simp only [applyAt, hwf, if_true, hm', unitRes_ok], F', ho, hr⟩
  · simp only [hwf, if_false]
    simp [applyAt, hwf]


theorem fitsFields_default (fs : List Shape) (ih : ∀ f ∈ fs, fits f (denote f .default) = true) :
    fitsFields fs (denoteDefault fs) = true := by
  induction fs with
  | nil => simp [denoteDefault, fitsFields]
  | cons f fs ihf =>
    simp only [denoteDefault, fitsFields, Bool.and_eq_true]
    exact ⟨ih f List.mem_cons_self, ihf (fun g hg => ih g (List.mem_cons_of_mem _ hg))⟩

/-- Default-initialised values have all counts zero, so they fit. -/
theorem fits_default (s : Shape) : fits s (denote s .default) = true := by
  induction s using Shape.induct' with
  | fixed f => simp [denote, fits]
  | list e lw => simp [denote, fits, Shape.usizeLim]; exact Nat.pow_pos (by omega)
  | set e lw => simp [denote, fits, Shape.usizeLim]; exact Nat.pow_pos (by omega)
  | map kw vv lw => simp [denote, fits, Shape.usizeLim]; exact Nat.pow_pos (by omega)
  | str lw => simp [denote, fits, Shape.usizeLim]; exact Nat.pow_pos (by omega)
  | rem => simp [denote, fits]
  | ulist e ih => simp [denote, fits, Shape.u32Lim]
  | umap kw e ih => simp [denote, fits, Shape.u32Lim]
  | struct sized fs ih => simp only [denote, fits]; exact fitsFields_default fs ih
  | enum ds ps ih =>
    cases ps with
    | nil => simp [denote, fits]
    | cons p ps => simp only [denote, fits, fitsVariant]; exact ih p List.mem_cons_self
  | unit => simp [denote, fits]
  | disc d inner ih => simp only [denote, fits]; exact ih

/-- The value an accepted initialiser denotes is well formed, provided it fits. -/
theorem good_denote {t : Shape} (hok : OkS t) (a : Init) (ha : initOk t a = true)
    (hf : fits t (denote t a) = true) : Good t (denote t a) := by
  obtain ⟨top, ie, h⟩ := hok
  exact ⟨⟨top, ie, h⟩, (initP_all t a ha).2.2 top ie h, hf⟩

/-- `reset` (`set_from_init(DefaultInit)`). -/
theorem reset_refines {s v p t u m} (F : Focus s v p t u m) (c : Calm m) :
    Refines s v p t u m .reset := by
  unfold Refines
  simp only [Spec.applyNode]
  by_cases hi : initOk t .default = true
  · simp only [hi, if_true]
    intro hroom
    have g' := good_denote F.sub.ok .default hi (fits_default t)
    have he := (initP_all t .default hi).1
    obtain ⟨m', hm', F', ho, hr⟩ := setDataInner_refines F c _ g' hroom
    exact ⟨m', by simp only [applyAt, hi, if_true, he, hm', unitRes_ok], F', ho, hr⟩
  · simp only [hi]
    simp [applyAt, hi]


theorem insertAt_end {α : Type} (l : List α) (xs : List α) : Spec.insertAt l l.length xs = l ++ xs := by
  simp [Spec.insertAt]

theorem removeRange_last {α : Type} (l : List α) (_h : l ≠ []) :
    Spec.removeRange l (l.length - 1) l.length = l.dropLast := by
  simp [Spec.removeRange, List.dropLast_eq_take]

theorem removeRange_all {α : Type} (l : List α) : Spec.removeRange l 0 l.length = [] := by
  simp [Spec.removeRange]

theorem list_set_bytes (ew lw : Nat) (es : List (List Nat)) (i : Nat) (x : List Nat)
    (hes : ∀ y ∈ es, y.length = ew) (hx : x.length = ew) (hi : i < es.length) :
    wr (leN lw es.length ++ es.flatten) (lw + i * ew) x = leN lw es.length ++ (es.set i x).flatten := by
  rw [flatten_set_split es i x hi, flatten_split es i hi]
  have e1 : leN lw es.length ++ ((es.take i).flatten ++ es[i] ++ (es.drop (i + 1)).flatten)
      = (leN lw es.length ++ (es.take i).flatten) ++ es[i] ++ (es.drop (i + 1)).flatten := by
    simp [List.append_assoc]
  rw [e1, wr_after _ es[i] x _ _ (by
    simp only [List.length_append, leN_length]
    rw [flatten_width ew (es.take i) (fun y hy => hes y (List.mem_of_mem_take hy))]
    simp [Nat.min_eq_left (Nat.le_of_lt hi)]) (by rw [hes _ (List.getElem_mem _), hx])]
  simp [List.append_assoc]

/-- Every op on a `List` node. -/
theorem list_refines {s v p m} {e : Fixed} {lw : Nat} {es : List (List Nat)}
    (F : Focus s v p (.list e lw) (.seq es) m) (c : Calm m) (op : Op) :
    Refines s v p (.list e lw) (.seq es) m op := by
  have hrd := list_rdlen F
  cases op with
  | touch => exact touch_refines F
  | replace nv => exact replace_refines F c nv
  | reset => exact reset_refines F c
  | push x =>
    unfold Refines
    simp only [Spec.applyNode, applyAt, hrd]
    by_cases hx : validE e x = true
    · simp only [hx, if_true]
      obtain ⟨_, h2, h3⟩ := list_insertAll_refines F c es.length [x] (by simpa using hx)
      by_cases hov : 256 ^ lw ≤ es.length + 1
      · simp only [hov, if_true]
        have := h2 (by omega) (by simpa using hov)
        rw [this, unitRes_err]; exact Or.inr rfl
      · simp only [hov, if_false]
        intro hroom
        rw [← insertAt_end] at hroom ⊢
        obtain ⟨m', hm', F', ho, hr⟩ := h3 (by omega) (by simpa using hov) hroom
        exact ⟨m', by rw [hm', unitRes_ok], F', ho, hr⟩
    · simp [hx]
  | insert i x =>
    unfold Refines
    simp only [Spec.applyNode, applyAt]
    by_cases hx : validE e x = true
    · simp only [hx, if_true]
      obtain ⟨h1, h2, h3⟩ := list_insertAll_refines F c i [x] (by simpa using hx)
      by_cases hi : es.length < i
      · simp only [hi, if_true]; rw [h1 hi, unitRes_err]; exact Or.inr rfl
      · simp only [hi, if_false]
        by_cases hov : 256 ^ lw ≤ es.length + 1
        · simp only [hov, if_true]; rw [h2 hi (by simpa using hov), unitRes_err]; exact Or.inr rfl
        · simp only [hov, if_false]
          intro hroom
          obtain ⟨m', hm', F', ho, hr⟩ := h3 hi (by simpa using hov) hroom
          exact ⟨m', by rw [hm', unitRes_ok], F', ho, hr⟩
    · simp [hx]
  | insertAll i xs =>
    unfold Refines
    simp only [Spec.applyNode, applyAt]
    by_cases hx : xs.all (validE e) = true
    · simp only [hx, if_true]
      obtain ⟨h1, h2, h3⟩ := list_insertAll_refines F c i xs (by simpa [List.all_eq_true] using hx)
      by_cases hi : es.length < i
      · simp only [hi, if_true]; rw [h1 hi, unitRes_err]; exact Or.inr rfl
      · simp only [hi, if_false]
        by_cases hov : 256 ^ lw ≤ es.length + xs.length
        · simp only [hov, if_true]; rw [h2 hi hov, unitRes_err]; exact Or.inr rfl
        · simp only [hov, if_false]
          intro hroom
          obtain ⟨m', hm', F', ho, hr⟩ := h3 hi hov hroom
          exact ⟨m', by rw [hm', unitRes_ok], F', ho, hr⟩
    · simp [hx]
  | remove i =>
    unfold Refines
    simp only [Spec.applyNode, applyAt]
    obtain ⟨_, h2, h3⟩ := list_removeRange_refines F c i (i + 1)
    by_cases hi : es.length < i + 1
    · simp only [hi, if_true]; rw [h2 (by omega) hi, unitRes_err]; exact Or.inr rfl
    · simp only [hi, if_false]
      intro _
      obtain ⟨m', hm', F', ho, hr, _⟩ := h3 (by omega) hi
      exact ⟨m', by rw [hm', unitRes_ok], F', ho, hr⟩
  | removeRange lo hi =>
    unfold Refines
    simp only [Spec.applyNode, applyAt]
    obtain ⟨h1, h2, h3⟩ := list_removeRange_refines F c lo hi
    by_cases hr1 : hi < lo
    · simp only [hr1, if_true]; rw [h1 hr1, unitRes_err]; exact Or.inr rfl
    · simp only [hr1, if_false]
      by_cases hr2 : es.length < hi
      · simp only [hr2, if_true]; rw [h2 hr1 hr2, unitRes_err]; exact Or.inr rfl
      · simp only [hr2, if_false]
        intro _
        obtain ⟨m', hm', F', ho, hr, _⟩ := h3 hr1 hr2
        exact ⟨m', by rw [hm', unitRes_ok], F', ho, hr⟩
  | pop =>
    unfold Refines
    simp only [Spec.applyNode, applyAt, listPop, hrd]
    by_cases hemp : es = []
    · subst hemp
      simp only [List.isEmpty_nil, if_true, List.length_nil]
      intro _
      exact ⟨m, rfl, F.same, rfl, rfl⟩
    · have hne : es.isEmpty = false := by cases es <;> simp at hemp ⊢
      have hl : es.length ≠ 0 := by cases es <;> simp at hemp ⊢
      simp only [hne, hl, if_false, Bool.false_eq_true]
      intro _
      obtain ⟨_, _, h3⟩ := list_removeRange_refines F c (es.length - 1) es.length
      obtain ⟨m', hm', F', ho, hr, _⟩ := h3 (by omega) (by omega)
      rw [removeRange_last es hemp] at F'
      exact ⟨m', by rw [hm'], F', ho, hr⟩
  | clear =>
    unfold Refines
    simp only [Spec.applyNode, applyAt, listClear, hrd]
    intro _
    obtain ⟨_, _, h3⟩ := list_removeRange_refines F c 0 es.length
    obtain ⟨m', hm', F', ho, hr, _⟩ := h3 (by omega) (by omega)
    rw [removeRange_all es] at F'
    exact ⟨m', by rw [hm', unitRes_ok], F', ho, hr⟩
  | set i x =>
    unfold Refines
    simp only [Spec.applyNode, applyAt, hrd]
    by_cases hx : validE e x = true
    · simp only [hx, if_true]
      by_cases hi : i < es.length
      · simp only [hi, if_true]
        intro hroom
        obtain ⟨hes, hlen⟩ := good_list F.sub
        have hE : (encode (.list e lw) (.seq es)).length = lw + es.length * e.size := by
          rw [list_enc, List.length_append, leN_length, flatten_width e.size es hes]
        have hw := enc_wr p s v _ _ F.good F.res x (lw + i * e.size) (by
          rw [hE, validE_len hx]
          have : (i + 1) * e.size ≤ es.length * e.size := Nat.mul_le_mul_right _ hi
          rw [Nat.add_mul] at this; omega)
        have hb : wr m.bytes (offsetOf s v p + lw + i * e.size) x
            = plug s v p (encode (.list e lw) (.seq (es.set i x))) := by
          rw [F.bytes, Nat.add_assoc, hw, list_enc, list_set_bytes e.size lw es i x hes (validE_len hx) hi]
          simp [list_enc]
        have g' : Good (.list e lw) (.seq (es.set i x)) := by
          obtain ⟨_, _, hf⟩ := F.sub
          simp only [fits, Bool.and_eq_true, decide_eq_true_eq] at hf
          apply good_list_of F.sub.ok
          · intro y hy
            rcases List.mem_or_eq_of_mem_set hy with h | h
            · exact good_list_valid F.sub y h
            · subst h; exact hx
          · simpa using hf.1
          · simpa using hf.2
        refine ⟨_, rfl, F.finish _ g' _ hb ?_, rfl, rfl⟩
        simp only []; rw [hb]; exact F.small c _ hroom
      · simp only [hi, if_false]
        intro _
        exact ⟨m, rfl, F.same, rfl, rfl⟩
    · simp [hx]
  | _ => unfold Refines; simp [Spec.applyNode, applyAt]

end Unsized.Machine
