import Unsized.PtrHonestD
namespace Unsized.Ptr
open Common Unsized Unsized.Text Unsized.Machine Unsized.PtrT

/-! ## One accessor step inside an honest object -/

/-- `R` is the pointer object of `v` in which the accessor `st` has been taken and whose sub-pointer for
that child is `child` (a hole: `child` itself is not constrained); everything else is honest. -/
def HonStep : Shape → Val → Step → Nat → PtrTree → PtrTree → Prop
  | .struct sized fs, .record _ vs, .field i, b, R, child =>
      ∃ ks, HonL fs vs (b + Fixed.sizeList sized) ks
        ∧ R = (if sized.isEmpty then .node (ks.set i child) else .node (.leaf .checked b :: ks.set i child))
  | .ulist e, .useq vs, .elem _, b, R, child =>
      ∃ pmb, R = .ulist 4 b vs.length b (b + size (.ulist e) (.useq vs)) (some child) pmb
  | .umap kw e, .umap es, .elem _, b, R, child =>
      ∃ pmb, R = .node [.ulist (Shape.entryW kw) b es.length b (b + size (.umap kw e) (.umap es)) (some child) pmb]
  | .enum _ _, .variant idx _, .payload, b, R, child => R = .start b idx (some child)
  | _, _, _, _, _, _ => False

/-- The step inside the pointer object that corresponds to the accessor `st`. -/
def tstep : Shape → Step → List TStep
  | .struct sized _, .field i => [.kid (if sized.isEmpty then i else i + 1)]
  | .ulist _, .elem _ => [.inner]
  | .umap _ _, .elem _ => [.kid 0, .inner]
  | .enum _ _, .payload => [.payload]
  | _, _ => []

theorem honL_length (fs : List Shape) : ∀ (vs : List Val) (b : Nat) (ks : List PtrTree), fs.length = vs.length →
    HonL fs vs b ks → ks.length = fs.length := by
  induction fs with
  | nil => intro vs b ks _ h; simp only [HonL] at h; subst h; rfl
  | cons f fs ih =>
    intro vs b ks hl h
    cases vs with
    | nil => simp at hl
    | cons v vs =>
      simp only [HonL] at h
      obtain ⟨k, ks', rfl, _, hks⟩ := h
      simp [ih vs _ ks' (by simpa using hl) hks]

theorem honL_split (fs : List Shape) (vs : List Val) (i : Nat) (f : Shape) (x : Val) (b : Nat) (ks : List PtrTree)
    (hf : fs[i]? = some f) (hx : vs[i]? = some x) (h : HonL fs vs b ks) :
    ∃ L k Rr, ks = L ++ k :: Rr ∧ L.length = i ∧ HonL (fs.take i) (vs.take i) b L
      ∧ Hon f x (b + sizeFields (fs.take i) (vs.take i)) k
      ∧ HonL (fs.drop (i + 1)) (vs.drop (i + 1)) (b + sizeFields (fs.take i) (vs.take i) + size f x) Rr := by
  induction i generalizing fs vs b ks with
  | zero =>
    cases fs with
    | nil => simp at hf
    | cons f' fs => cases vs with
      | nil => simp at hx
      | cons x' vs =>
        simp at hf hx; subst hf hx
        simp only [HonL] at h
        obtain ⟨k, ks', rfl, hk, hks⟩ := h
        exact ⟨[], k, ks', rfl, rfl, by simp [HonL], by simpa [sizeFields] using hk, by simpa [sizeFields] using hks⟩
  | succ i ih =>
    cases fs with
    | nil => simp at hf
    | cons f' fs => cases vs with
      | nil => simp at hx
      | cons x' vs =>
        simp at hf hx
        simp only [HonL] at h
        obtain ⟨k0, ks', rfl, hk0, hks⟩ := h
        obtain ⟨L, k, Rr, rfl, hL, a1, a2, a3⟩ := ih fs vs (b + size f' x') ks' hf hx hks
        refine ⟨k0 :: L, k, Rr, rfl, by simp [hL], ?_, ?_, ?_⟩
        · simp only [List.take_succ_cons, HonL]; exact ⟨_, _, rfl, hk0, a1⟩
        · simpa [sizeFields, Nat.add_assoc] using a2
        · simpa [sizeFields, Nat.add_assoc] using a3

theorem honL_join (fs : List Shape) (vs : List Val) (i : Nat) (f : Shape) (x : Val) (b : Nat)
    (L : List PtrTree) (k : PtrTree) (Rr : List PtrTree)
    (hf : fs[i]? = some f) (hx : vs[i]? = some x) (hl : fs.length = vs.length)
    (a1 : HonL (fs.take i) (vs.take i) b L) (a2 : Hon f x (b + sizeFields (fs.take i) (vs.take i)) k)
    (a3 : HonL (fs.drop (i + 1)) (vs.drop (i + 1)) (b + sizeFields (fs.take i) (vs.take i) + size f x) Rr) :
    HonL fs vs b (L ++ k :: Rr) := by
  induction i generalizing fs vs b L with
  | zero =>
    cases fs with
    | nil => simp at hf
    | cons f' fs => cases vs with
      | nil => simp at hx
      | cons x' vs =>
        simp at hf hx; subst hf hx
        simp only [List.take_zero, HonL] at a1; subst a1
        simp only [HonL, List.nil_append]
        exact ⟨_, _, rfl, by simpa [sizeFields] using a2, by simpa [sizeFields] using a3⟩
  | succ i ih =>
    cases fs with
    | nil => simp at hf
    | cons f' fs => cases vs with
      | nil => simp at hx
      | cons x' vs =>
        simp at hf hx
        simp only [List.take_succ_cons, HonL] at a1
        obtain ⟨k0, L', rfl, hk0, hL'⟩ := a1
        simp only [HonL, List.cons_append]
        refine ⟨_, _, rfl, hk0, ih fs vs (b + size f' x') L' hf hx (by simpa using hl) hL' ?_ ?_⟩
        · simpa [sizeFields, Nat.add_assoc] using a2
        · simpa [sizeFields, Nat.add_assoc] using a3

theorem honL_set (fs : List Shape) (vs : List Val) (i : Nat) (f : Shape) (x : Val) (b : Nat) (ks : List PtrTree)
    (k : PtrTree) (hf : fs[i]? = some f) (hx : vs[i]? = some x) (hl : fs.length = vs.length)
    (h : HonL fs vs b ks) (hk : Hon f x (b + sizeFields (fs.take i) (vs.take i)) k) : HonL fs vs b (ks.set i k) := by
  obtain ⟨L, k0, Rr, rfl, hL, a1, _, a3⟩ := honL_split fs vs i f x b ks hf hx h
  rw [set_mid _ _ _ _ _ hL.symm]
  exact honL_join fs vs i f x b L k Rr hf hx hl a1 hk a3

theorem honL_get (fs : List Shape) (vs : List Val) (i : Nat) (f : Shape) (x : Val) (b : Nat) (ks : List PtrTree)
    (hf : fs[i]? = some f) (hx : vs[i]? = some x) (h : HonL fs vs b ks) :
    ∃ k, ks[i]? = some k ∧ Hon f x (b + sizeFields (fs.take i) (vs.take i)) k ∧ ks.set i k = ks := by
  obtain ⟨L, k0, Rr, rfl, hL, _, a2, _⟩ := honL_split fs vs i f x b ks hf hx h
  refine ⟨k0, ?_, a2, by rw [set_mid _ _ _ _ _ hL.symm]⟩
  subst hL; simp

end Unsized.Ptr
