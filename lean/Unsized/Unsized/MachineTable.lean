import Unsized.MachineBytes
import Unsized.CodecLemmasTop
/-!
# Offset-table lemmas: `tableOffsets`, `shiftOffsets`, `search` on the serialized table of an
`UnsizedList` / `UnsizedMap`, and the arithmetic of running offsets (`offsets`)
-/
namespace Unsized.Machine
open Common Unsized

/-- The bytes of an offset table with offsets `offs` and entry payloads `keys`. -/
def tbl (offs : List Nat) (keys : List (List Nat)) : List Nat :=
  (List.zipWith (fun o k => leN 4 o ++ k) offs keys).flatten

@[simp] theorem tbl_nil_left (keys : List (List Nat)) : tbl [] keys = [] := by simp [tbl]
@[simp] theorem tbl_nil_right (offs : List Nat) : tbl offs [] = [] := by simp [tbl]
@[simp] theorem tbl_cons (o : Nat) (os : List Nat) (k : List Nat) (ks : List (List Nat)) :
    tbl (o :: os) (k :: ks) = leN 4 o ++ k ++ tbl os ks := by simp [tbl]

theorem tbl_length (kw : Nat) (offs : List Nat) (keys : List (List Nat)) (hl : offs.length = keys.length)
    (hk : ∀ k ∈ keys, k.length = kw) : (tbl offs keys).length = offs.length * (4 + kw) := by
  induction offs generalizing keys with
  | nil => simp
  | cons o os ih =>
    cases keys with
    | nil => simp at hl
    | cons k ks =>
      simp only [tbl_cons, List.length_append, leN_length, List.length_cons]
      rw [ih ks (by simpa using hl) (fun k hk' => hk k (List.mem_cons_of_mem _ hk')), hk k (List.mem_cons_self)]
      rw [Nat.add_mul]; omega

theorem rd32_at (p r : List Nat) (k n : Nat) (hk : k = p.length) (h : n < Shape.u32Lim) :
    rd32 (p ++ leN 4 n ++ r) k = n := by
  unfold rd32
  exact rdN_leN_after p r k 4 n hk (by simpa [Shape.u32Lim] using h)

theorem wr32_at (p r : List Nat) (k n n' : Nat) (hk : k = p.length) :
    wr32 (p ++ leN 4 n ++ r) k n' = p ++ leN 4 n' ++ r := by
  unfold wr32
  exact wr_after p _ _ r k hk (by simp)

theorem tableOffsets_tbl (kw : Nat) (offs : List Nat) (keys : List (List Nat)) (pre post : List Nat)
    (pos : Nat) (hp : pos = pre.length) (hl : offs.length = keys.length)
    (hk : ∀ k ∈ keys, k.length = kw) (ho : ∀ o ∈ offs, o < Shape.u32Lim) :
    tableOffsets (4 + kw) (pre ++ tbl offs keys ++ post) pos offs.length = offs := by
  induction offs generalizing keys pre pos with
  | nil => simp [tableOffsets]
  | cons o os ih =>
    cases keys with
    | nil => simp at hl
    | cons k ks =>
      simp only [List.length_cons, tableOffsets, tbl_cons]
      have e : pre ++ (leN 4 o ++ k ++ tbl os ks) ++ post = pre ++ leN 4 o ++ (k ++ tbl os ks ++ post) := by
        simp [List.append_assoc]
      have e2 : pre ++ (leN 4 o ++ k ++ tbl os ks) ++ post = (pre ++ leN 4 o ++ k) ++ tbl os ks ++ post := by
        simp [List.append_assoc]
      congr 1
      · rw [e]; exact rd32_at pre _ pos o hp (ho o (List.mem_cons_self))
      · rw [e2]
        exact ih ks (pre ++ leN 4 o ++ k) (pos + (4 + kw))
          (by simp [hp, hk k (List.mem_cons_self)]) (by simpa using hl)
          (fun k' hk' => hk k' (List.mem_cons_of_mem _ hk')) (fun o' ho' => ho o' (List.mem_cons_of_mem _ ho'))

theorem shiftOffsets_tbl (kw : Nat) (neg : Bool) (amt : Nat) (offs : List Nat) (keys : List (List Nat))
    (pre post : List Nat) (pos : Nat) (hp : pos = pre.length) (hl : offs.length = keys.length)
    (hk : ∀ k ∈ keys, k.length = kw) (ho : ∀ o ∈ offs, o < Shape.u32Lim) :
    shiftOffsets (4 + kw) neg amt pos offs.length (pre ++ tbl offs keys ++ post)
      = pre ++ tbl (offs.map (applyDelta neg amt)) keys ++ post := by
  induction offs generalizing keys pre pos with
  | nil => simp [shiftOffsets]
  | cons o os ih =>
    cases keys with
    | nil => simp at hl
    | cons k ks =>
      simp only [List.length_cons, shiftOffsets, tbl_cons, List.map_cons]
      have e : pre ++ (leN 4 o ++ k ++ tbl os ks) ++ post = pre ++ leN 4 o ++ (k ++ tbl os ks ++ post) := by
        simp [List.append_assoc]
      rw [e, rd32_at pre _ pos o hp (ho o (List.mem_cons_self)), wr32_at pre _ pos o _ hp]
      have e2 : pre ++ leN 4 (applyDelta neg amt o) ++ (k ++ tbl os ks ++ post)
          = (pre ++ leN 4 (applyDelta neg amt o) ++ k) ++ tbl os ks ++ post := by
        simp [List.append_assoc]
      rw [e2, ih ks (pre ++ leN 4 (applyDelta neg amt o) ++ k) (pos + (4 + kw))
          (by simp [hp, hk k (List.mem_cons_self)]) (by simpa using hl)
          (fun k' hk' => hk k' (List.mem_cons_of_mem _ hk')) (fun o' ho' => ho o' (List.mem_cons_of_mem _ ho'))]
      simp [List.append_assoc]


theorem tbl_split (offs : List Nat) (keys : List (List Nat)) (j : Nat) :
    tbl offs keys = tbl (offs.take j) (keys.take j) ++ tbl (offs.drop j) (keys.drop j) := by
  induction j generalizing offs keys with
  | zero => simp
  | succ j ih =>
    cases offs with
    | nil => simp
    | cons o os =>
      cases keys with
      | nil => simp
      | cons k ks => simp [ih os ks, List.append_assoc]

/-- `search` on running sums of positive sizes: a pointer into element `i` selects start index `i+1`. -/
theorem search_offsets (sizes : List Nat) (acc idx i a : Nat) (hpos : ∀ s ∈ sizes, 0 < s)
    (hi : i < sizes.length)
    (hlo : acc + (sizes.take i).sum ≤ a) (hhi : a < acc + (sizes.take (i + 1)).sum) :
    (match search (offsets sizes acc) a idx with | .at k => k + 1 | .ins k => k) = idx + i + 1 := by
  induction sizes generalizing acc idx i with
  | nil => simp at hi
  | cons s ss ih =>
    have hs := hpos s (List.mem_cons_self)
    cases i with
    | zero =>
      simp at hlo hhi
      simp only [offsets, search]
      by_cases h1 : acc < a
      · simp only [h1, if_true]
        cases ss with
        | nil => simp [offsets, search]
        | cons s2 ss2 =>
          simp only [offsets, search]
          have : ¬ acc + s < a := by omega
          have h2 : acc + s ≠ a := by omega
          simp [this, h2]
      · have : acc = a := by omega
        simp [this]
    | succ i =>
      simp only [List.take_succ_cons, List.sum_cons] at hlo hhi
      simp only [offsets, search]
      have hacc : acc < a := by omega
      simp only [hacc, if_true]
      have := ih (acc + s) (idx + 1) i (fun s' hs' => hpos s' (List.mem_cons_of_mem _ hs'))
        (by simpa using hi) (by omega) (by omega)
      rw [this]; omega

theorem offsets_eq_take (sizes : List Nat) (acc i : Nat) (hi : i < sizes.length) :
    (offsets sizes acc)[i]? = some (acc + (sizes.take i).sum) := by
  induction sizes generalizing acc i with
  | nil => simp at hi
  | cons s ss ih =>
    cases i with
    | zero => simp [offsets]
    | succ i =>
      simp only [offsets, List.getElem?_cons_succ, List.take_succ_cons, List.sum_cons]
      rw [ih (acc + s) i (by simpa using hi)]; congr 1; omega

theorem offsets_shift (l : List Nat) (neg : Bool) (amt b : Nat) (hb : neg = true → amt ≤ b) :
    offsets l (applyDelta neg amt b) = (offsets l b).map (applyDelta neg amt) := by
  induction l generalizing b with
  | nil => simp [offsets]
  | cons x xs ih =>
    simp only [offsets, List.map_cons, List.cons.injEq, true_and]
    have e : applyDelta neg amt b + x = applyDelta neg amt (b + x) := by
      unfold applyDelta; cases neg
      · simp; omega
      · have := hb rfl; simp; omega
    rw [e]
    exact ih (b + x) (fun h => by have := hb h; omega)

/-- Changing the size of element `i` shifts exactly the offsets after `i`. -/
theorem offsets_set (sizes : List Nat) (acc i n' : Nat) (neg : Bool) (amt : Nat) (hi : i < sizes.length)
    (hn : n' = applyDelta neg amt (sizes[i]'hi)) (hneg : neg = true → amt ≤ sizes[i]'hi) :
    offsets (sizes.set i n') acc
      = (offsets sizes acc).take (i + 1) ++ ((offsets sizes acc).drop (i + 1)).map (applyDelta neg amt) := by
  induction sizes generalizing acc i with
  | nil => simp at hi
  | cons s ss ih =>
    cases i with
    | zero =>
      simp only [List.set_cons_zero, offsets, List.take_succ_cons, List.take_zero, List.drop_succ_cons,
        List.drop_zero, List.getElem_cons_zero] at hn hneg ⊢
      simp only [List.cons_append, List.nil_append, List.cons.injEq, true_and]
      subst hn
      have e : acc + applyDelta neg amt s = applyDelta neg amt (acc + s) := by
        unfold applyDelta; cases neg
        · simp; omega
        · have := hneg rfl; simp; omega
      rw [e]
      exact offsets_shift ss neg amt (acc + s) (fun h => by have := hneg h; omega)
    | succ i =>
      simp only [List.set_cons_succ, offsets, List.take_succ_cons, List.drop_succ_cons, List.cons_append,
        List.getElem_cons_succ] at hn hneg ⊢
      rw [ih (acc + s) i (by simpa using hi) hn hneg]

end Unsized.Machine
