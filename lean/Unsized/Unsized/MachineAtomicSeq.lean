import Unsized.MachineAtomic
/-!
# C06 for `Set` / `Map` nodes under ANY refusal schedule

* `listInsertAll_cases` / `seq_insertAll_cases` — `List::insert_all` on a node stored as
  `leN lw len ++ records`, with no assumption on the refusal schedule (`Small`, not `Calm`): either an
  error and bytes / `orig` / schedule are what they were, or success and the node holds the new value.
* `setInsert_atomic`, `setRemove_atomic`, `mapInsert_atomic`, `mapRemove_atomic`, `set_atomic`,
  `map_atomic` — every non-composite op on a `Set` / `Map` node is atomic.
* `setInsert_cases`, `mapInsert_cases` — one `insert` under any schedule.
* `setInsertAll_any`, `mapInsertAll_any` and the corollaries `setInsertAll_err_canonical`,
  `mapInsertAll_err_canonical` — `insert_all` (known finding `map_set_insert_all_partial`: NOT atomic):
  whatever the schedule, afterwards the buffer is the canonical encoding of the container with the
  first `i` new entries applied; on an error `i < #entries`, on success `i = #entries` and the owned model
  returns the same count.
-/
namespace Unsized.Machine
open Common Unsized Unsized.Text

/-- `Focus` only speaks about the bytes. -/
theorem Focus.congr {s v p t u m} (F : Focus s v p t u m) (m' : Mem) (h : m'.bytes = m.bytes) :
    Focus s v p t u m' := ⟨F.good, F.res, by rw [h]; exact F.bytes⟩

theorem Small.next {m m' : Mem} (sm : Small m) (ho : m'.orig = m.orig)
    (hl : m'.bytes.length ≤ m.orig + maxIncrease) : Small m' :=
  ⟨by rw [ho]; exact sm.small, by rw [ho]; exact hl⟩

/-- The length prefix of a node stored as `leN lw len ++ records`. -/
theorem seq_rdlen {s v p t u m} (F : Focus s v p t u m) (lw : Nat) (es : List (List Nat))
    (henc : encode t u = leN lw es.length ++ es.flatten) (hlen : es.length < 256 ^ lw) :
    rdN m.bytes (offsetOf s v p) lw = es.length := by
  have := enc_rdN p s v t u F.good F.res 0 lw (by rw [henc]; simp)
  rw [Nat.add_zero] at this
  rw [F.bytes, this, henc, rdN_leN_zero lw _ _ hlen]

/-- `List::insert_all` under ANY refusal schedule (validation passed): refused and nothing changed, or
the bytes of the node are the new prefix and records. -/
theorem listInsertAll_cases {s v p t u m} (F : Focus s v p t u m) (sm : Small m) (ew lw : Nat)
    (es : List (List Nat)) (henc : encode t u = leN lw es.length ++ es.flatten)
    (hes : ∀ x ∈ es, x.length = ew) (hlen : es.length < 256 ^ lw)
    (idx : Nat) (items : List (List Nat)) (hitems : ∀ x ∈ items, x.length = ew) (hidx : idx ≤ es.length)
    (hfit : es.length + items.length < 256 ^ lw) :
    listInsertAll ⟨s, p⟩ ew lw (offsetOf s v p) idx items m = ({ m with grows := m.grows + 1 }, .error .realloc)
    ∨ ∃ m1 : Mem, listInsertAll ⟨s, p⟩ ew lw (offsetOf s v p) idx items m = (m1, .ok ())
      ∧ m1.bytes = plug s v p (leN lw (es.length + items.length) ++ (Spec.insertAt es idx items).flatten)
      ∧ m1.orig = m.orig ∧ m1.refuse = m.refuse
      ∧ (encode s v).length + ew * items.length ≤ m.orig + maxIncrease := by
  have hElen : (encode t u).length = lw + es.length * ew := by
    rw [henc, List.length_append, leN_length, flatten_width ew es hes]
  have hrdlen := seq_rdlen F lw es henc hlen
  have hifl : items.flatten.length = ew * items.length := by
    rw [flatten_width ew items hitems, Nat.mul_comm]
  have hkle : lw + idx * ew ≤ (encode t u).length := by
    rw [hElen]; have := Nat.mul_le_mul_right ew hidx; omega
  have h1 : ¬ es.length < idx := by omega
  have h2 : ¬ 256 ^ lw ≤ es.length + items.length := by omega
  have hpos : offsetOf s v p + lw + idx * ew = offsetOf s v p + (lw + idx * ew) := by omega
  unfold listInsertAll
  simp only [hrdlen, h1, h2, if_false]
  rw [hpos]
  rcases F.grow_cases sm (lw + idx * ew) (ew * items.length) hkle with hr | ⟨G, m1, hG, hadd, hb1, ho1, hr1, hroom⟩
  · left; rw [hr]
  · right
    rw [hadd]
    simp only []
    refine ⟨_, rfl, ?_, ho1, hr1, hroom⟩
    simp only []
    rw [hb1]
    obtain ⟨X, hX⟩ : ∃ X, X = (encode t u).take (lw + idx * ew) ++ G ++ (encode t u).drop (lw + idx * ew) := ⟨_, rfl⟩
    have hXl : X.length = (encode t u).length + ew * items.length := by
      rw [hX]; simp only [List.length_append, List.length_take, List.length_drop, hG]; omega
    rw [← hX]
    have hw1 := plug_wr p s v t u F.good F.res X (leN lw (es.length + items.length)) 0 (by simp; omega)
    rw [Nat.add_zero] at hw1
    rw [hw1]
    have hw2 := plug_wr p s v t u F.good F.res (wr X 0 (leN lw (es.length + items.length))) items.flatten
      (lw + idx * ew) (by rw [wr_length _ _ _ (by simp; omega), hXl, hifl]; omega)
    rw [hw2, hX, henc, list_insert_bytes ew lw es items idx _ G hes (by rw [hG, hifl]) hidx]

/-- `insert_all` on a list / set / map node under ANY refusal schedule. `g'` (the new value is well
formed) may use that the new buffer fits below `orig + 10240`. -/
theorem seq_insertAll_cases {s v p m} {t : Shape} {es : List (List Nat)} (F : Focus s v p t (.seq es) m)
    (sm : Small m) (ew lw : Nat) (henc : ∀ es', encode t (.seq es') = leN lw es'.length ++ es'.flatten)
    (hes : ∀ x ∈ es, x.length = ew) (hlen : es.length < 256 ^ lw)
    (idx : Nat) (xs : List (List Nat)) (hxs : ∀ x ∈ xs, x.length = ew) (hidx : idx ≤ es.length)
    (hfit : es.length + xs.length < 256 ^ lw)
    (g' : (plug s v p (encode t (.seq (Spec.insertAt es idx xs)))).length ≤ m.orig + maxIncrease →
      Good t (.seq (Spec.insertAt es idx xs))) :
    listInsertAll ⟨s, p⟩ ew lw (offsetOf s v p) idx xs m = ({ m with grows := m.grows + 1 }, .error .realloc)
    ∨ ∃ m', listInsertAll ⟨s, p⟩ ew lw (offsetOf s v p) idx xs m = (m', .ok ())
      ∧ Focus s (subst s v p (.seq (Spec.insertAt es idx xs))) p t (.seq (Spec.insertAt es idx xs)) m'
      ∧ m'.orig = m.orig ∧ m'.refuse = m.refuse ∧ Small m' := by
  have hil : (Spec.insertAt es idx xs).length = es.length + xs.length := by
    simp [Spec.insertAt]; omega
  have hwid : ∀ x ∈ Spec.insertAt es idx xs, x.length = ew := by
    intro x hx
    simp only [Spec.insertAt, List.mem_append] at hx
    rcases hx with (hx | hx) | hx
    · exact hes x (List.mem_of_mem_take hx)
    · exact hxs x hx
    · exact hes x (List.mem_of_mem_drop hx)
  have hnew : (encode t (.seq (Spec.insertAt es idx xs))).length = (encode t (.seq es)).length + ew * xs.length := by
    rw [henc, henc]
    simp only [List.length_append, leN_length]
    rw [flatten_width ew _ hwid, flatten_width ew es hes, hil, Nat.add_mul, Nat.mul_comm xs.length]
    omega
  have hpl := plug_length p s v _ _ F.good F.res (encode t (.seq (Spec.insertAt es idx xs)))
  rcases listInsertAll_cases F sm ew lw es (henc es) hes hlen idx xs hxs hidx hfit with hr | ⟨m1, hm1, hb1, ho1, hr1, hroom⟩
  · exact Or.inl hr
  · right
    have hb1' : m1.bytes = plug s v p (encode t (.seq (Spec.insertAt es idx xs))) := by
      rw [hb1, henc, hil]
    have hroom' : (plug s v p (encode t (.seq (Spec.insertAt es idx xs)))).length ≤ m.orig + maxIncrease := by omega
    have hsm := sm.small
    exact ⟨m1, hm1, F.finish _ (g' hroom') m1 hb1' (by rw [hb1']; omega), ho1, hr1,
      sm.next ho1 (by rw [hb1']; exact hroom')⟩

/-! ## Atomicity of the single `Set` / `Map` calls -/

theorem same3 {α : Type} {m m'' : Mem} {r : Except Err α} {e : Err}
    (hh : (m, r) = (m'', (Except.error e : Except Err α))) :
    m''.bytes = m.bytes ∧ m''.orig = m.orig ∧ m''.refuse = m.refuse := by
  cases hh; exact ⟨rfl, rfl, rfl⟩

/-- `Set::insert` is atomic under any refusal schedule. -/
theorem setInsert_atomic {s v p m} {e : Fixed} {lw : Nat} {es : List (List Nat)}
    (F : Focus s v p (.set e lw) (.seq es) m) (sm : Small m) (x : List Nat) (m' : Mem) (er : Err)
    (h : setInsert ⟨s, p⟩ e.size lw (offsetOf s v p) x m = (m', .error er)) :
    m'.bytes = m.bytes ∧ m'.orig = m.orig ∧ m'.refuse = m.refuse := by
  obtain ⟨hval, hlen, _, _⟩ := good_set F.sub
  have hes : ∀ y ∈ es, y.length = e.size := fun y hy => validE_len (hval y hy)
  unfold setInsert at h
  split at h
  · cases h
  · split at h
    · rename_i m1 e1 hrr
      cases h
      exact listInsertAll_atomic F sm e.size lw es (set_enc e lw es) hes hlen _ _ _ _ hrr
    · cases h

/-- `Set::remove` is atomic. -/
theorem setRemove_atomic {s v p m} {e : Fixed} {lw : Nat} {es : List (List Nat)}
    (F : Focus s v p (.set e lw) (.seq es) m) (x : List Nat) (m' : Mem) (er : Err)
    (h : setRemove ⟨s, p⟩ e.size lw (offsetOf s v p) x m = (m', .error er)) : m' = m := by
  obtain ⟨hval, hlen, _, _⟩ := good_set F.sub
  have hes : ∀ y ∈ es, y.length = e.size := fun y hy => validE_len (hval y hy)
  unfold setRemove at h
  split at h
  · cases h
  · split at h
    · rename_i m1 e1 hrr
      cases h
      exact listRemoveRange_atomic F e.size lw es (set_enc e lw es) hes hlen _ _ _ _ hrr
    · cases h

/-- `Map::insert` is atomic under any refusal schedule. -/
theorem mapInsert_atomic {s v p m} {kw : Nat} {f : Fixed} {lw : Nat} {es : List (List Nat)}
    (F : Focus s v p (.map kw f lw) (.seq es) m) (sm : Small m) (k x : List Nat) (m' : Mem) (er : Err)
    (h : mapInsert ⟨s, p⟩ kw f.size lw (offsetOf s v p) k x m = (m', .error er)) :
    m'.bytes = m.bytes ∧ m'.orig = m.orig ∧ m'.refuse = m.refuse := by
  obtain ⟨hval, hlen, _, _⟩ := good_map F.sub
  have hes : ∀ y ∈ es, y.length = kw + f.size := fun y hy => validKV_len (hval y hy)
  unfold mapInsert at h
  simp only [] at h
  split at h
  · cases h
  · split at h
    · rename_i m1 e1 hrr
      cases h
      exact listInsertAll_atomic F sm (kw + f.size) lw es (map_enc kw f lw es) hes hlen _ _ _ _ hrr
    · cases h

/-- `Map::remove` is atomic. -/
theorem mapRemove_atomic {s v p m} {kw : Nat} {f : Fixed} {lw : Nat} {es : List (List Nat)}
    (F : Focus s v p (.map kw f lw) (.seq es) m) (k : List Nat) (m' : Mem) (er : Err)
    (h : mapRemove ⟨s, p⟩ kw f.size lw (offsetOf s v p) k m = (m', .error er)) : m' = m := by
  obtain ⟨hval, hlen, _, _⟩ := good_map F.sub
  have hes : ∀ y ∈ es, y.length = kw + f.size := fun y hy => validKV_len (hval y hy)
  unfold mapRemove at h
  simp only [] at h
  split at h
  · cases h
  · split at h
    · rename_i m1 e1 hrr
      cases h
      exact listRemoveRange_atomic F (kw + f.size) lw es (map_enc kw f lw es) hes hlen _ _ _ _ hrr
    · cases h

/-- Every non-generic, non-composite op on a `Set` node is atomic under any refusal schedule. -/
theorem set_atomic {s v p m} {el : Fixed} {lw : Nat} {es : List (List Nat)}
    (F : Focus s v p (.set el lw) (.seq es) m) (sm : Small m) (op : Op)
    (hg : genericOp op = false) (hnc : composite op = false) (m' : Mem) (e : Err)
    (h : applyAt ⟨s, p⟩ (.set el lw) (offsetOf s v p) op m = (m', .error e)) :
    m'.bytes = m.bytes ∧ m'.orig = m.orig ∧ m'.refuse = m.refuse := by
  obtain ⟨hval, hlen, _, _⟩ := good_set F.sub
  have hes : ∀ y ∈ es, y.length = el.size := fun y hy => validE_len (hval y hy)
  cases op <;> simp [genericOp] at hg <;> simp [composite] at hnc <;> simp only [applyAt] at h
  all_goals first
    | exact same3 h
    | skip
  · -- clear
    unfold listClear at h
    have := listRemoveRange_atomic F _ lw es (set_enc el lw es) hes hlen _ _ m' e (unitRes_err_inv h)
    subst this; exact ⟨rfl, rfl, rfl⟩
  · -- sinsert
    split at h
    · split at h
      · rename_i m1 e1 hrr
        cases h
        exact setInsert_atomic F sm _ _ _ hrr
      · cases h
    · exact same3 h
  · -- sremove
    split at h
    · have := setRemove_atomic F _ m' e h
      subst this; exact ⟨rfl, rfl, rfl⟩
    · exact same3 h

/-- Every non-generic, non-composite op on a `Map` node is atomic under any refusal schedule. -/
theorem map_atomic {s v p m} {kw : Nat} {f : Fixed} {lw : Nat} {es : List (List Nat)}
    (F : Focus s v p (.map kw f lw) (.seq es) m) (sm : Small m) (op : Op)
    (hg : genericOp op = false) (hnc : composite op = false) (m' : Mem) (e : Err)
    (h : applyAt ⟨s, p⟩ (.map kw f lw) (offsetOf s v p) op m = (m', .error e)) :
    m'.bytes = m.bytes ∧ m'.orig = m.orig ∧ m'.refuse = m.refuse := by
  obtain ⟨hval, hlen, _, _⟩ := good_map F.sub
  have hes : ∀ y ∈ es, y.length = kw + f.size := fun y hy => validKV_len (hval y hy)
  cases op <;> simp [genericOp] at hg <;> simp [composite] at hnc <;> simp only [applyAt] at h
  all_goals first
    | exact same3 h
    | skip
  · -- clear
    unfold listClear at h
    have := listRemoveRange_atomic F _ lw es (map_enc kw f lw es) hes hlen _ _ m' e (unitRes_err_inv h)
    subst this; exact ⟨rfl, rfl, rfl⟩
  · -- minsert
    split at h
    · split at h
      · rename_i m1 e1 hrr
        cases h
        exact mapInsert_atomic F sm _ _ _ _ hrr
      · cases h
    · exact same3 h
  · -- mremove
    split at h
    · have := mapRemove_atomic F _ m' e h
      subst this; exact ⟨rfl, rfl, rfl⟩
    · exact same3 h
  · -- mset
    split at h
    · split at h <;> cases h
    · exact same3 h

/-! ## One `insert` under any refusal schedule -/

/-- `BTreeSet::insert` of one element on the owned model. -/
def setStep (ew : Nat) (x : List Nat) (es : List (List Nat)) : List (List Nat) :=
  if Spec.hasKey ew (rdLE x) es then es else insKey ew x es

/-- `Set::insert` under ANY refusal schedule: an error leaves everything alone; otherwise the node holds
the owned model's new value and the flag is "was new". -/
theorem setInsert_cases {s v p m} {e : Fixed} {lw : Nat} {es : List (List Nat)}
    (F : Focus s v p (.set e lw) (.seq es) m) (sm : Small m) (x : List Nat) (hx : validE e x = true) :
    (∃ m' er, setInsert ⟨s, p⟩ e.size lw (offsetOf s v p) x m = (m', .error er)
        ∧ m'.bytes = m.bytes ∧ m'.orig = m.orig ∧ m'.refuse = m.refuse)
    ∨ (∃ m', setInsert ⟨s, p⟩ e.size lw (offsetOf s v p) x m = (m', .ok (!Spec.hasKey e.size (rdLE x) es))
        ∧ Focus s (subst s v p (.seq (setStep e.size x es))) p (.set e lw) (.seq (setStep e.size x es)) m'
        ∧ m'.orig = m.orig ∧ m'.refuse = m.refuse ∧ Small m'
        ∧ (Spec.hasKey e.size (rdLE x) es = false → ¬ 256 ^ lw ≤ es.length + 1)) := by
  obtain ⟨hval, hlen, hus, hsorted⟩ := good_set F.sub
  have hes : ∀ y ∈ es, y.length = e.size := fun y hy => validE_len (hval y hy)
  have hkeys := listKeys_enc F e.size lw e.size (set_enc e lw es) hes hlen
  have hkx : keyOf e.size x = rdLE x := keyOf_full _ _ (validE_len hx)
  unfold setInsert
  rw [hkeys]
  rcases search_sorted (keyOf e.size) es (rdLE x) 0 hsorted with ⟨j, hj, hse, hk, hb, ha⟩ | ⟨j, hj, hse, hb, ha⟩
  · -- present
    have hhas : Spec.hasKey e.size (rdLE x) es = true := by
      simp only [Spec.hasKey, List.any_eq_true, beq_iff_eq]
      exact ⟨es[j], List.getElem_mem _, hk⟩
    right
    rw [hse]
    simp only [setStep, hhas, if_true, Bool.not_true]
    exact ⟨m, rfl, F.same, rfl, rfl, sm, fun h => by cases h⟩
  · have hhas : Spec.hasKey e.size (rdLE x) es = false := any_false_of_split (keyOf e.size) es (rdLE x) j hb ha
    have hins : insKey e.size x es = Spec.insertAt es j [x] :=
      insKey_new e.size x es j (by rw [hkx]; exact hb) (by rw [hkx]; exact ha)
    rw [hse]
    simp only [Nat.zero_add, setStep, hhas, Bool.false_eq_true, if_false, Bool.not_false]
    by_cases hov : 256 ^ lw ≤ es.length + 1
    · left
      refine ⟨m, .toPrim, ?_, rfl, rfl, rfl⟩
      unfold listInsertAll
      have hrd := seq_rdlen F lw es (set_enc e lw es) hlen
      have h1 : ¬ es.length < j := by omega
      simp only [hrd, h1, List.length_singleton, hov, if_true, if_false]
    · rw [hins]
      have hil : (Spec.insertAt es j [x]).length = es.length + 1 := by simp [Spec.insertAt]; omega
      have hwid : ∀ y ∈ Spec.insertAt es j [x], y.length = e.size := by
        intro y hy
        simp only [Spec.insertAt, List.mem_append, List.mem_singleton] at hy
        rcases hy with (hy | hy) | hy
        · exact hes y (List.mem_of_mem_take hy)
        · subst hy; exact validE_len hx
        · exact hes y (List.mem_of_mem_drop hy)
      have g' : (plug s v p (encode (.set e lw) (.seq (Spec.insertAt es j [x])))).length ≤ m.orig + maxIncrease →
          Good (.set e lw) (.seq (Spec.insertAt es j [x])) := by
        intro hroom
        apply good_set_of F.sub.ok
        · intro y hy
          simp only [Spec.insertAt, List.mem_append, List.mem_singleton] at hy
          rcases hy with (hy | hy) | hy
          · exact hval y (List.mem_of_mem_take hy)
          · subst hy; exact hx
          · exact hval y (List.mem_of_mem_drop hy)
        · omega
        · have hpl := plug_length p s v _ _ F.good F.res (encode (.set e lw) (.seq (Spec.insertAt es j [x])))
          have hle := offsetOf_le p s v _ _ F.good F.res
          have hsm := sm.small
          have : e.size * (Spec.insertAt es j [x]).length ≤ (encode (.set e lw) (.seq (Spec.insertAt es j [x]))).length := by
            simp only [set_enc, List.length_append, leN_length]
            rw [flatten_width e.size _ hwid, Nat.mul_comm]; omega
          have := u32_lt_usize
          omega
        · rw [← hins]
          have hp := insKey_pairwise e.size x es (by rw [strictKeys, decide_eq_true_eq] at hsorted; exact hsorted)
          rw [strictKeys, decide_eq_true_eq]; exact hp
      rcases seq_insertAll_cases F sm e.size lw (set_enc e lw) hes hlen j [x]
        (by intro y hy; simp at hy; subst hy; exact validE_len hx) hj (by simp; omega) g' with hr | ⟨m', hm', F', ho, hr, sm'⟩
      · left
        exact ⟨{ m with grows := m.grows + 1 }, .realloc, by rw [hr], rfl, rfl, rfl⟩
      · right
        exact ⟨m', by rw [hm'], F', ho, hr, sm', fun _ => hov⟩

/-- The in-place value store of `Map::insert` / `get_mut` with no assumption on the schedule. -/
theorem map_store_small {s v p m} {kw : Nat} {f : Fixed} {lw : Nat} {es : List (List Nat)}
    (F : Focus s v p (.map kw f lw) (.seq es) m) (sm : Small m) (k x : List Nat) (hk : k.length = kw)
    (hkw : BytesWF k) (hx : validE f x = true) (j : Nat) (hj : j < es.length) (hkj : (es[j]).take kw = k) :
    Focus s (subst s v p (.seq (es.set j (k ++ x)))) p (.map kw f lw) (.seq (es.set j (k ++ x)))
      { m with bytes := wr m.bytes (offsetOf s v p + lw + j * (kw + f.size) + kw) x }
    ∧ rd m.bytes (offsetOf s v p + lw + j * (kw + f.size) + kw) f.size = (es[j]).drop kw
    ∧ (wr m.bytes (offsetOf s v p + lw + j * (kw + f.size) + kw) x).length = m.bytes.length := by
  obtain ⟨hval, hlen, hus, hsorted⟩ := good_map F.sub
  have hes : ∀ y ∈ es, y.length = kw + f.size := fun y hy => validKV_len (hval y hy)
  have hes' : ∀ y ∈ es.set j (k ++ x), y.length = kw + f.size := by
    intro y hy
    rcases List.mem_or_eq_of_mem_set hy with h | h
    · exact hes y h
    · subst h; simp [hk, validE_len hx]
  have hpl := plug_length p s v _ _ F.good F.res (encode (.map kw f lw) (.seq (es.set j (k ++ x))))
  have hsame : (encode (.map kw f lw) (.seq (es.set j (k ++ x)))).length = (encode (.map kw f lw) (.seq es)).length := by
    simp only [map_enc, List.length_append, leN_length, List.length_set]
    rw [flatten_width (kw + f.size) _ hes', flatten_width (kw + f.size) _ hes, List.length_set]
  have hfit := sm.fitsNow
  rw [F.bytes] at hfit
  let m0 : Mem := { m with refuse := [] }
  have F0 : Focus s v p (.map kw f lw) (.seq es) m0 := F.congr m0 rfl
  have c0 : Calm m0 := ⟨rfl, sm.small, sm.fitsNow⟩
  have hroom : (plug s v p (encode (.map kw f lw) (.seq (es.set j (k ++ x))))).length ≤ m0.orig + maxIncrease := by
    show _ ≤ m.orig + maxIncrease
    omega
  obtain ⟨F', hold⟩ := map_store F0 c0 k x hk hkw hx j hj hkj hroom
  refine ⟨F'.congr _ rfl, hold, ?_⟩
  have hb := F'.bytes
  simp only [m0] at hb
  rw [hb, subst_encode p s v _ _ _ F.good F.res, F.bytes]
  omega

/-- `Map::insert` under ANY refusal schedule: an error leaves everything alone; otherwise the node holds
the owned model's new value and the old value is returned. -/
theorem mapInsert_cases {s v p m} {kw : Nat} {f : Fixed} {lw : Nat} {es : List (List Nat)}
    (F : Focus s v p (.map kw f lw) (.seq es) m) (sm : Small m) (k x : List Nat) (hk : k.length = kw)
    (hkw : BytesWF k) (hx : validE f x = true) :
    (∃ m' er, mapInsert ⟨s, p⟩ kw f.size lw (offsetOf s v p) k x m = (m', .error er)
        ∧ m'.bytes = m.bytes ∧ m'.orig = m.orig ∧ m'.refuse = m.refuse)
    ∨ (∃ m', mapInsert ⟨s, p⟩ kw f.size lw (offsetOf s v p) k x m
          = (m', .ok ((Spec.findKey kw (rdLE k) es).map (List.drop kw)))
        ∧ Focus s (subst s v p (.seq (insKey kw (k ++ x) es))) p (.map kw f lw) (.seq (insKey kw (k ++ x) es)) m'
        ∧ m'.orig = m.orig ∧ m'.refuse = m.refuse ∧ Small m'
        ∧ (Spec.findKey kw (rdLE k) es).isNone = !Spec.hasKey kw (rdLE k) es
        ∧ (Spec.hasKey kw (rdLE k) es = false → ¬ 256 ^ lw ≤ es.length + 1)) := by
  obtain ⟨hval, hlen, hus, hsorted⟩ := good_map F.sub
  have hes : ∀ y ∈ es, y.length = kw + f.size := fun y hy => validKV_len (hval y hy)
  unfold mapInsert
  rcases map_search F k hk hkw with ⟨j, hj, hse, hkj, hfind, hhas, hins, _⟩ | ⟨j, hj, hse, hfind, hhas, hins⟩
  · right
    simp only [hse, hfind, hhas, Option.map_some, Option.isNone_some, Bool.not_true]
    rw [hins x]
    obtain ⟨F', hold, hwl⟩ := map_store_small F sm k x hk hkw hx j hj hkj
    refine ⟨_, by rw [hold], F', rfl, rfl, sm.next rfl ?_, trivial, fun h => by cases h⟩
    show (wr m.bytes _ x).length ≤ _
    rw [hwl]; exact sm.fitsNow
  · simp only [hse, hfind, hhas, Option.map_none, Option.isNone_none, Bool.not_false]
    by_cases hov : 256 ^ lw ≤ es.length + 1
    · left
      refine ⟨m, .toPrim, ?_, rfl, rfl, rfl⟩
      unfold listInsertAll
      have hrd := seq_rdlen F lw es (map_enc kw f lw es) hlen
      have h1 : ¬ es.length < j := by omega
      simp only [hrd, h1, List.length_singleton, hov, if_true, if_false]
    · rw [hins x]
      have hwid : ∀ y ∈ Spec.insertAt es j [k ++ x], y.length = kw + f.size := by
        intro y hy
        simp only [Spec.insertAt, List.mem_append, List.mem_singleton] at hy
        rcases hy with (hy | hy) | hy
        · exact hes y (List.mem_of_mem_take hy)
        · subst hy; simp [hk, validE_len hx]
        · exact hes y (List.mem_of_mem_drop hy)
      have g' : (plug s v p (encode (.map kw f lw) (.seq (Spec.insertAt es j [k ++ x])))).length ≤ m.orig + maxIncrease →
          Good (.map kw f lw) (.seq (Spec.insertAt es j [k ++ x])) := by
        intro hroom
        apply good_map_of F.sub.ok
        · intro y hy
          simp only [Spec.insertAt, List.mem_append, List.mem_singleton] at hy
          rcases hy with (hy | hy) | hy
          · exact hval y (List.mem_of_mem_take hy)
          · subst hy; exact validKV_mk hk hkw hx
          · exact hval y (List.mem_of_mem_drop hy)
        · simp [Spec.insertAt]; omega
        · have hpl := plug_length p s v _ _ F.good F.res (encode (.map kw f lw) (.seq (Spec.insertAt es j [k ++ x])))
          have hle := offsetOf_le p s v _ _ F.good F.res
          have hsm := sm.small
          have : (kw + f.size) * (Spec.insertAt es j [k ++ x]).length
              ≤ (encode (.map kw f lw) (.seq (Spec.insertAt es j [k ++ x]))).length := by
            simp only [map_enc, List.length_append, leN_length]
            rw [flatten_width (kw + f.size) _ hwid, Nat.mul_comm]; omega
          have := u32_lt_usize
          omega
        · rw [← hins x]
          have hp := insKey_pairwise kw (k ++ x) es (by rw [strictKeys, decide_eq_true_eq] at hsorted; exact hsorted)
          rw [strictKeys, decide_eq_true_eq]; exact hp
      rcases seq_insertAll_cases F sm (kw + f.size) lw (map_enc kw f lw) hes hlen j [k ++ x]
        (by intro y hy; simp at hy; subst hy; simp [hk, validE_len hx]) hj (by simp; omega) g' with hr | ⟨m', hm', F', ho, hr, sm'⟩
      · left
        exact ⟨{ m with grows := m.grows + 1 }, .realloc, by rw [hr], rfl, rfl, rfl⟩
      · right
        exact ⟨m', by rw [hm'], F', ho, hr, sm', trivial, fun _ => hov⟩

/-! ## `insert_all` under any refusal schedule (known finding `map_set_insert_all_partial`) -/

/-- The owned set after inserting `xs` one by one. -/
def setApply (ew : Nat) (xs : List (List Nat)) (es : List (List Nat)) : List (List Nat) :=
  xs.foldl (fun acc x => setStep ew x acc) es

/-- The owned map after inserting `kvs` one by one. -/
def mapApply (kw : Nat) (kvs : List (List Nat × List Nat)) (es : List (List Nat)) : List (List Nat) :=
  kvs.foldl (fun acc kx => insKey kw (kx.1 ++ kx.2) acc) es

/-- **`Set::insert_all` under ANY refusal schedule**: afterwards the buffer is the canonical encoding
of the set with the first `i` new elements inserted; an error means `i < #xs` (the loop stopped at
element `i`), success means all were inserted and the owned model returns the same count. -/
theorem setInsertAll_any {s p} {e : Fixed} {lw : Nat} (xs : List (List Nat)) :
    ∀ (v : Val) (m : Mem) (es : List (List Nat)) (n : Nat), Focus s v p (.set e lw) (.seq es) m → Small m →
      (∀ x ∈ xs, validE e x = true) →
      ∀ (m' : Mem) (r : Except Err Ret), setInsertAll ⟨s, p⟩ e.size lw (offsetOf s v p) xs n m = (m', r) →
      ∃ i, i ≤ xs.length
        ∧ Focus s (subst s v p (.seq (setApply e.size (xs.take i) es))) p (.set e lw)
            (.seq (setApply e.size (xs.take i) es)) m'
        ∧ m'.orig = m.orig ∧ m'.refuse = m.refuse ∧ Small m'
        ∧ ((∃ er, r = .error er ∧ i < xs.length)
            ∨ (∃ n', r = .ok (.count n') ∧ i = xs.length
                ∧ Spec.setInsertAll e.size lw xs es n = .ok (setApply e.size xs es, n'))) := by
  induction xs with
  | nil =>
    intro v m es n F sm _ m' r h
    simp only [setInsertAll] at h
    cases h
    exact ⟨0, by simp, by simpa [setApply] using F.same, rfl, rfl, sm, Or.inr ⟨n, rfl, rfl, by simp [Spec.setInsertAll, setApply]⟩⟩
  | cons x xs ih =>
    intro v m es n F sm hxs m' r h
    have hx := hxs x List.mem_cons_self
    have hxs' : ∀ y ∈ xs, validE e y = true := fun y hy => hxs y (List.mem_cons_of_mem _ hy)
    simp only [setInsertAll] at h
    rcases setInsert_cases F sm x hx with ⟨m1, er, hm1, hb, ho, hr⟩ | ⟨m1, hm1, F1, ho1, hr1, sm1, hnov⟩
    · rw [hm1] at h
      simp only [] at h
      cases h
      refine ⟨0, by simp, ?_, ho, hr, sm.next ho (by rw [hb]; exact sm.fitsNow), Or.inl ⟨er, rfl, by simp⟩⟩
      simpa [setApply] using F.same.congr _ hb
    · rw [hm1] at h
      simp only [] at h
      obtain ⟨hoff, hplug, hss⟩ := F.next_facts _ m1 F1 (by have := sm1.fitsNow; have := sm1.small; omega)
      rw [← hoff] at h
      obtain ⟨i, hi, Fi, hoi, hri, smi, hres⟩ := ih _ m1 _ _ F1 sm1 hxs' m' r h
      rw [hss] at Fi
      refine ⟨i + 1, by simp; omega, by simpa [setApply, List.take_succ_cons] using Fi, by rw [hoi, ho1], by rw [hri, hr1], smi, ?_⟩
      rcases hres with ⟨er, hr, hlt⟩ | ⟨n', hr, hie, hspec⟩
      · exact Or.inl ⟨er, hr, by simp; omega⟩
      · refine Or.inr ⟨n', hr, by simp; omega, ?_⟩
        simp only [Spec.setInsertAll, setApply, List.foldl_cons]
        cases hhas : Spec.hasKey e.size (rdLE x) es with
        | true =>
          simp only [setStep, hhas, if_true, Bool.not_true, Bool.false_eq_true, if_false] at hspec ⊢
          exact hspec
        | false =>
          have := hnov hhas
          simp only [setStep, hhas, Bool.false_eq_true, if_false, Bool.not_false, if_true, this] at hspec ⊢
          exact hspec

/-- **`Map::insert_all` under ANY refusal schedule**: afterwards the buffer is the canonical encoding
of the map with the first `i` new entries inserted; an error means `i < #kvs`, success means all were
inserted and the owned model returns the same count. -/
theorem mapInsertAll_any {s p} {kw : Nat} {f : Fixed} {lw : Nat} (kvs : List (List Nat × List Nat)) :
    ∀ (v : Val) (m : Mem) (es : List (List Nat)) (n : Nat), Focus s v p (.map kw f lw) (.seq es) m → Small m →
      (∀ kx ∈ kvs, kx.1.length = kw ∧ BytesWF kx.1 ∧ validE f kx.2 = true) →
      ∀ (m' : Mem) (r : Except Err Ret), mapInsertAll ⟨s, p⟩ kw f.size lw (offsetOf s v p) kvs n m = (m', r) →
      ∃ i, i ≤ kvs.length
        ∧ Focus s (subst s v p (.seq (mapApply kw (kvs.take i) es))) p (.map kw f lw)
            (.seq (mapApply kw (kvs.take i) es)) m'
        ∧ m'.orig = m.orig ∧ m'.refuse = m.refuse ∧ Small m'
        ∧ ((∃ er, r = .error er ∧ i < kvs.length)
            ∨ (∃ n', r = .ok (.count n') ∧ i = kvs.length
                ∧ Spec.mapInsertAll kw lw kvs es n = .ok (mapApply kw kvs es, n'))) := by
  induction kvs with
  | nil =>
    intro v m es n F sm _ m' r h
    simp only [mapInsertAll] at h
    cases h
    exact ⟨0, by simp, by simpa [mapApply] using F.same, rfl, rfl, sm, Or.inr ⟨n, rfl, rfl, by simp [Spec.mapInsertAll, mapApply]⟩⟩
  | cons kx kvs ih =>
    intro v m es n F sm hkvs m' r h
    obtain ⟨k, x⟩ := kx
    obtain ⟨hk, hkw, hx⟩ := hkvs (k, x) List.mem_cons_self
    simp only [] at hk hkw hx
    have hkvs' : ∀ kx ∈ kvs, kx.1.length = kw ∧ BytesWF kx.1 ∧ validE f kx.2 = true :=
      fun y hy => hkvs y (List.mem_cons_of_mem _ hy)
    simp only [mapInsertAll] at h
    rcases mapInsert_cases F sm k x hk hkw hx with ⟨m1, er, hm1, hb, ho, hr⟩ | ⟨m1, hm1, F1, ho1, hr1, sm1, hnone, hnov⟩
    · rw [hm1] at h
      simp only [] at h
      cases h
      refine ⟨0, by simp, ?_, ho, hr, sm.next ho (by rw [hb]; exact sm.fitsNow), Or.inl ⟨er, rfl, by simp⟩⟩
      simpa [mapApply] using F.same.congr _ hb
    · rw [hm1] at h
      simp only [] at h
      obtain ⟨hoff, hplug, hss⟩ := F.next_facts _ m1 F1 (by have := sm1.fitsNow; have := sm1.small; omega)
      rw [← hoff] at h
      obtain ⟨i, hi, Fi, hoi, hri, smi, hres⟩ := ih _ m1 _ _ F1 sm1 hkvs' m' r h
      rw [hss] at Fi
      refine ⟨i + 1, by simp; omega, by simpa [mapApply, List.take_succ_cons] using Fi, by rw [hoi, ho1], by rw [hri, hr1], smi, ?_⟩
      rcases hres with ⟨er, hr, hlt⟩ | ⟨n', hr, hie, hspec⟩
      · exact Or.inl ⟨er, hr, by simp; omega⟩
      · refine Or.inr ⟨n', hr, by simp; omega, ?_⟩
        simp only [Spec.mapInsertAll, mapApply, List.foldl_cons]
        rw [Option.isNone_map, hnone] at hspec
        cases hhas : Spec.hasKey kw (rdLE k) es with
        | true =>
          simp only [hhas, if_true, Bool.not_true, Bool.false_eq_true, if_false] at hspec ⊢
          exact hspec
        | false =>
          have := hnov hhas
          simp only [hhas, Bool.false_eq_true, if_false, Bool.not_false, if_true, this] at hspec ⊢
          exact hspec

/-- `Set::insert_all` failing half-way (any schedule): the buffer is still canonical — for the set with
the first `i` elements inserted. -/
theorem setInsertAll_err_prefix {s v p m} {e : Fixed} {lw : Nat} {es : List (List Nat)}
    (F : Focus s v p (.set e lw) (.seq es) m) (sm : Small m) (xs : List (List Nat))
    (hxs : ∀ x ∈ xs, validE e x = true) (n : Nat) (m' : Mem) (er : Err)
    (h : setInsertAll ⟨s, p⟩ e.size lw (offsetOf s v p) xs n m = (m', .error er)) :
    ∃ i, i < xs.length
      ∧ Focus s (subst s v p (.seq (setApply e.size (xs.take i) es))) p (.set e lw)
          (.seq (setApply e.size (xs.take i) es)) m'
      ∧ m'.orig = m.orig ∧ m'.refuse = m.refuse := by
  obtain ⟨i, _, Fi, ho, hr, _, hres⟩ := setInsertAll_any xs v m es n F sm hxs m' _ h
  rcases hres with ⟨_, _, hlt⟩ | ⟨_, hc, _⟩
  · exact ⟨i, hlt, Fi, ho, hr⟩
  · cases hc

theorem setInsertAll_err_canonical {s v p m} {e : Fixed} {lw : Nat} {es : List (List Nat)}
    (F : Focus s v p (.set e lw) (.seq es) m) (sm : Small m) (xs : List (List Nat))
    (hxs : ∀ x ∈ xs, validE e x = true) (n : Nat) (m' : Mem) (er : Err)
    (h : setInsertAll ⟨s, p⟩ e.size lw (offsetOf s v p) xs n m = (m', .error er)) :
    ∃ es', Focus s (subst s v p (.seq es')) p (.set e lw) (.seq es') m' ∧ m'.orig = m.orig ∧ m'.refuse = m.refuse := by
  obtain ⟨i, _, Fi, ho, hr⟩ := setInsertAll_err_prefix F sm xs hxs n m' er h
  exact ⟨_, Fi, ho, hr⟩

/-- `Map::insert_all` failing half-way (any schedule): the buffer is still canonical — for the map with
the first `i` entries inserted. -/
theorem mapInsertAll_err_prefix {s v p m} {kw : Nat} {f : Fixed} {lw : Nat} {es : List (List Nat)}
    (F : Focus s v p (.map kw f lw) (.seq es) m) (sm : Small m) (kvs : List (List Nat × List Nat))
    (hkvs : ∀ kx ∈ kvs, kx.1.length = kw ∧ BytesWF kx.1 ∧ validE f kx.2 = true) (n : Nat) (m' : Mem) (er : Err)
    (h : mapInsertAll ⟨s, p⟩ kw f.size lw (offsetOf s v p) kvs n m = (m', .error er)) :
    ∃ i, i < kvs.length
      ∧ Focus s (subst s v p (.seq (mapApply kw (kvs.take i) es))) p (.map kw f lw)
          (.seq (mapApply kw (kvs.take i) es)) m'
      ∧ m'.orig = m.orig ∧ m'.refuse = m.refuse := by
  obtain ⟨i, _, Fi, ho, hr, _, hres⟩ := mapInsertAll_any kvs v m es n F sm hkvs m' _ h
  rcases hres with ⟨_, _, hlt⟩ | ⟨_, hc, _⟩
  · exact ⟨i, hlt, Fi, ho, hr⟩
  · cases hc

theorem mapInsertAll_err_canonical {s v p m} {kw : Nat} {f : Fixed} {lw : Nat} {es : List (List Nat)}
    (F : Focus s v p (.map kw f lw) (.seq es) m) (sm : Small m) (kvs : List (List Nat × List Nat))
    (hkvs : ∀ kx ∈ kvs, kx.1.length = kw ∧ BytesWF kx.1 ∧ validE f kx.2 = true) (n : Nat) (m' : Mem) (er : Err)
    (h : mapInsertAll ⟨s, p⟩ kw f.size lw (offsetOf s v p) kvs n m = (m', .error er)) :
    ∃ es', Focus s (subst s v p (.seq es')) p (.map kw f lw) (.seq es') m' ∧ m'.orig = m.orig ∧ m'.refuse = m.refuse := by
  obtain ⟨i, _, Fi, ho, hr⟩ := mapInsertAll_err_prefix F sm kvs hkvs n m' er h
  exact ⟨_, Fi, ho, hr⟩

/-- When the owned model's `insert_all` succeeds its value is `setApply` / `mapApply`. -/
theorem spec_setInsertAll_apply (ew lw : Nat) (xs : List (List Nat)) : ∀ (es : List (List Nat)) (n : Nat)
    (es' : List (List Nat)) (n' : Nat), Spec.setInsertAll ew lw xs es n = .ok (es', n') → es' = setApply ew xs es := by
  induction xs with
  | nil => intro es n es' n' h; simp [Spec.setInsertAll] at h; simp [setApply, h.1]
  | cons x xs ih =>
    intro es n es' n' h
    simp only [Spec.setInsertAll] at h
    simp only [setApply, List.foldl_cons, setStep]
    split at h
    · rename_i hh; simp only [hh, if_true]; exact ih _ _ _ _ h
    · rename_i hh
      split at h
      · cases h
      · simp only [hh]; exact ih _ _ _ _ h

theorem spec_mapInsertAll_apply (kw lw : Nat) (kvs : List (List Nat × List Nat)) : ∀ (es : List (List Nat)) (n : Nat)
    (es' : List (List Nat)) (n' : Nat), Spec.mapInsertAll kw lw kvs es n = .ok (es', n') → es' = mapApply kw kvs es := by
  induction kvs with
  | nil => intro es n es' n' h; simp [Spec.mapInsertAll] at h; simp [mapApply, h.1]
  | cons kx kvs ih =>
    intro es n es' n' h
    obtain ⟨k, x⟩ := kx
    simp only [Spec.mapInsertAll] at h
    simp only [mapApply, List.foldl_cons]
    split at h
    · exact ih _ _ _ _ h
    · split at h
      · cases h
      · exact ih _ _ _ _ h

/-! ## Non-vacuity: the C06 witness (`Map<u8,u8,u8> = {5: 1}`, `insert_all([(1,10),(2,11),(3,12)])`, 2nd growth
refused) satisfies the hypotheses of `mapInsertAll_err_prefix`, the call does fail, and the theorem pins
the bytes to a proper prefix of the new entries. -/

def exS : Shape := .map 1 (.pod 1) 1
def exKvs : List (List Nat × List Nat) := [([1], [10]), ([2], [11]), ([3], [12])]
def exM : Mem := { bytes := encode exS (.seq [[5, 1]]), orig := 3, grows := 0, refuse := [2] }

theorem exFocus : Focus exS (.seq [[5, 1]]) [] exS (.seq [[5, 1]]) exM :=
  ⟨⟨⟨true, false, by decide⟩, by decide, by decide⟩, rfl, rfl⟩

example : (match (mapInsertAll ⟨exS, []⟩ 1 1 1 0 exKvs 0 exM).2 with
    | .error .realloc => true | _ => false) = true := by decide +kernel

example (m' : Mem) (er : Err) (h : mapInsertAll ⟨exS, []⟩ 1 1 1 0 exKvs 0 exM = (m', .error er)) :
    ∃ i, i < 3 ∧ m'.bytes = encode exS (.seq (mapApply 1 (exKvs.take i) [[5, 1]])) := by
  obtain ⟨i, hi, Fi, _, _⟩ := mapInsertAll_err_prefix exFocus ⟨by decide, by decide⟩ exKvs (by decide) 0 m' er h
  exact ⟨i, hi, Fi.bytes⟩

end Unsized.Machine
