import Unsized.MachineOps
/-!
# Owned-model semantics of the op lines: `Vec` / `BTreeSet` / `BTreeMap` / `String` / struct / enum

`Spec.applyOp s v path op` is what the operation means on the owned value `v` of shape `s`
(`unsized_ops.md` §3, the harness's `model.rs` is the same table in Rust): the new value and the `ret=`
column, or the error class (`bad` = inapplicable op line). No bytes, no resizing, no growth limit.
-/
namespace Unsized.Spec
open Common Unsized Unsized.Text Unsized.Machine

/-- `Vec::splice(i..i, xs)`. -/
def insertAt {α : Type} (l : List α) (i : Nat) (xs : List α) : List α := l.take i ++ xs ++ l.drop i
/-- `Vec::drain(lo..hi)`. -/
def removeRange {α : Type} (l : List α) (lo hi : Nat) : List α := l.take lo ++ l.drop hi

/-- Does the sorted entry list contain the key of `x`? -/
def hasKey (kw : Nat) (k : Nat) (es : List (List Nat)) : Bool := es.any fun y => keyOf kw y == k

/-- `BTreeMap::remove`. -/
def delKey (kw : Nat) (k : Nat) (es : List (List Nat)) : List (List Nat) :=
  es.filter fun y => keyOf kw y != k

def findKey (kw : Nat) (k : Nat) (es : List (List Nat)) : Option (List Nat) :=
  es.find? fun y => keyOf kw y == k

/-- `BTreeSet::insert` of each element in turn; counts the new ones; `ToPrimitiveError` when the
count no longer fits the prefix. -/
def setInsertAll (ew lw : Nat) : List (List Nat) → List (List Nat) → Nat → Except Err (List (List Nat) × Nat)
  | [], es, n => .ok (es, n)
  | x :: xs, es, n =>
    if hasKey ew (rdLE x) es then setInsertAll ew lw xs es n
    else if 256 ^ lw ≤ es.length + 1 then .error .toPrim
    else setInsertAll ew lw xs (insKey ew x es) (n + 1)

def mapInsertAll (kw lw : Nat) :
    List (List Nat × List Nat) → List (List Nat) → Nat → Except Err (List (List Nat) × Nat)
  | [], es, n => .ok (es, n)
  | (k, x) :: kvs, es, n =>
    if hasKey kw (rdLE k) es then mapInsertAll kw lw kvs (insKey kw (k ++ x) es) n
    else if 256 ^ lw ≤ es.length + 1 then .error .toPrim
    else mapInsertAll kw lw kvs (insKey kw (k ++ x) es) (n + 1)

def hasUKey {α : Type} (k : Nat) (es : List (List Nat × α)) : Bool := es.any fun y => rdLE y.1 == k
def delUKey {α : Type} (k : Nat) (es : List (List Nat × α)) : List (List Nat × α) :=
  es.filter fun y => rdLE y.1 != k

/-- The op on one node. -/
def applyNode (t : Shape) (v : Val) (op : Op) : Except Err (Val × Ret) :=
  match op with
  | .touch => .ok (v, .unit)
  | .replace nv => if WF t nv then .ok (nv, .unit) else .error .bad
  | .reset => if initOk t .default then .ok (denote t .default, .unit) else .error .bad
  | op =>
  match t, v with
  | .fixed f, .bytes _ =>
    match op with
    | .write h => if validE f h then .ok (.bytes h, .unit) else .error .bad
    | _ => .error .bad
  | .struct sized _, .record _ vs =>
    match op with
    | .write h => if validE (.record sized) h then .ok (.record h vs, .unit) else .error .bad
    | _ => .error .bad
  | .list e lw, .seq es =>
    match op with
    | .push x =>
      if validE e x then
        if 256 ^ lw ≤ es.length + 1 then .error .toPrim else .ok (.seq (es ++ [x]), .unit)
      else .error .bad
    | .insert i x =>
      if validE e x then
        if es.length < i then .error .ioob
        else if 256 ^ lw ≤ es.length + 1 then .error .toPrim
        else .ok (.seq (insertAt es i [x]), .unit)
      else .error .bad
    | .insertAll i xs =>
      if xs.all (validE e) then
        if es.length < i then .error .ioob
        else if 256 ^ lw ≤ es.length + xs.length then .error .toPrim
        else .ok (.seq (insertAt es i xs), .unit)
      else .error .bad
    | .remove i => if es.length < i + 1 then .error .ioob else .ok (.seq (removeRange es i (i + 1)), .unit)
    | .removeRange lo hi =>
      if hi < lo then .error .range
      else if es.length < hi then .error .ioob
      else .ok (.seq (removeRange es lo hi), .unit)
    | .pop => if es.isEmpty then .ok (v, .flag false) else .ok (.seq es.dropLast, .flag true)
    | .clear => .ok (.seq [], .unit)
    | .set i x =>
      if validE e x then
        if i < es.length then .ok (.seq (es.set i x), .flag true) else .ok (v, .flag false)
      else .error .bad
    | _ => .error .bad
  | .set e lw, .seq es =>
    match op with
    | .sinsert x =>
      if validE e x then
        if hasKey e.size (rdLE x) es then .ok (v, .flag false)
        else if 256 ^ lw ≤ es.length + 1 then .error .toPrim
        else .ok (.seq (insKey e.size x es), .flag true)
      else .error .bad
    | .sremove x =>
      if validE e x then
        if hasKey e.size (rdLE x) es then .ok (.seq (delKey e.size (rdLE x) es), .flag true)
        else .ok (v, .flag false)
      else .error .bad
    | .sinsertAll xs =>
      if xs.all (validE e) then
        match setInsertAll e.size lw xs es 0 with
        | .error er => .error er
        | .ok (es', n) => .ok (.seq es', .count n)
      else .error .bad
    | .clear => .ok (.seq [], .unit)
    | _ => .error .bad
  | .map kw vs lw, .seq es =>
    match op with
    | .minsert k x =>
      if k.length == kw && decide (BytesWF k) && validE vs x then
        match findKey kw (rdLE k) es with
        | some old => .ok (.seq (insKey kw (k ++ x) es), .old (some (old.drop kw)))
        | none =>
          if 256 ^ lw ≤ es.length + 1 then .error .toPrim
          else .ok (.seq (insKey kw (k ++ x) es), .old none)
      else .error .bad
    | .mremove k =>
      if k.length == kw && decide (BytesWF k) then
        match findKey kw (rdLE k) es with
        | some old => .ok (.seq (delKey kw (rdLE k) es), .old (some (old.drop kw)))
        | none => .ok (v, .old none)
      else .error .bad
    | .mset k x =>
      if k.length == kw && decide (BytesWF k) && validE vs x then
        if hasKey kw (rdLE k) es then .ok (.seq (insKey kw (k ++ x) es), .flag true)
        else .ok (v, .flag false)
      else .error .bad
    | .minsertAll kvs =>
      if kvs.all (fun kx => kx.1.length == kw && decide (BytesWF kx.1) && validE vs kx.2) then
        match mapInsertAll kw lw kvs es 0 with
        | .error er => .error er
        | .ok (es', n) => .ok (.seq es', .count n)
      else .error .bad
    | .clear => .ok (.seq [], .unit)
    | _ => .error .bad
  | .str lw, .bytes _ =>
    match op with
    | .strSet s =>
      if utf8Valid s && decide (BytesWF s) then
        if 256 ^ lw ≤ s.length then .error .toPrim else .ok (.bytes s, .unit)
      else .error .bad
    | _ => .error .bad
  | .rem, .bytes l =>
    match op with
    | .setLen n => .ok (.bytes (l.take n ++ List.replicate (n - l.length) 0), .unit)
    | .set i x =>
      if x.length == 1 && decide (BytesWF x) then
        if i < l.length then .ok (.bytes (l.take i ++ x ++ l.drop (i + 1)), .flag true)
        else .ok (v, .flag false)
      else .error .bad
    | _ => .error .bad
  | .ulist e, .useq vs =>
    match op with
    | .uinsert i n =>
      if vs.length < i then .error .ioob
      else .ok (.useq (insertAt vs i (List.replicate n (denote e .default))), .unit)
    | .uinsertArr i xs =>
      if arrOk e xs then
        if vs.length < i then .error .ioob
        else if initFails e (.array xs) then .error .initFail
        else .ok (.useq (insertAt vs i [denote e (.array xs)]), .unit)
      else .error .bad
    | .remove i => if vs.length < i + 1 then .error .ioob else .ok (.useq (removeRange vs i (i + 1)), .unit)
    | .removeRange lo hi =>
      if lo = 0 ∧ hi = vs.length then .ok (.useq [], .unit)
      else if hi < lo then .error .range
      else if vs.length < hi then .error .ioob
      else .ok (.useq (removeRange vs lo hi), .unit)
    | .pop => if vs.isEmpty then .ok (v, .flag false) else .ok (.useq vs.dropLast, .flag true)
    | .clear => .ok (.useq [], .unit)
    | .uget i => .ok (v, .elem (vs[i]?.map fun x => ([], x)))
    | .utouch i => .ok (v, .flag (decide (i < vs.length)))
    | _ => .error .bad
  | .umap kw e, .umap es =>
    match op with
    | .uminsert k =>
      if k.length == kw && decide (BytesWF k) then
        .ok (.umap (insKV k (denote e .default) es), .flag (!hasUKey (rdLE k) es))
      else .error .bad
    | .uminsertArr k xs =>
      if k.length == kw && decide (BytesWF k) && arrOk e xs then
        if initFails e (.array xs) then .error .initFail
        else .ok (.umap (insKV k (denote e (.array xs)) es), .flag (!hasUKey (rdLE k) es))
      else .error .bad
    | .umremove k =>
      if k.length == kw && decide (BytesWF k) then
        .ok (.umap (delUKey (rdLE k) es), .flag (hasUKey (rdLE k) es))
      else .error .bad
    | .clear => .ok (.umap [], .unit)
    | .uget i => .ok (v, .elem es[i]?)
    | .utouch i => .ok (v, .flag (decide (i < es.length)))
    | _ => .error .bad
  | .enum ds ps, .variant _ _ =>
    match op with
    | .setVariant idx =>
      if idx < ds.length ∧ initOk (.enum ds ps) (.variant idx .default) then
        .ok (denote (.enum ds ps) (.variant idx .default), .unit)
      else .error .bad
    | _ => .error .bad
  | _, _ => .error .bad

/-- The op at `path` below the value `v` of shape `s` (`unsized_ops.md` §2 for the steps). -/
def applyOp : Shape → Val → List Step → Op → Except Err (Val × Ret)
  | s, v, [], op => applyNode s v op
  | .struct _ fs, .record sz vs, .field i :: p, op =>
    match fs[i]?, vs[i]? with
    | some f, some x =>
      match applyOp f x p op with
      | .error e => .error e
      | .ok (x', r) => .ok (.record sz (vs.set i x'), r)
    | _, _ => .error .bad
  | .ulist e, .useq vs, .elem i :: p, op =>
    match vs[i]? with
    | none => .error .ioob
    | some x =>
      match applyOp e x p op with
      | .error er => .error er
      | .ok (x', r) => .ok (.useq (vs.set i x'), r)
  | .umap _ e, .umap es, .elem i :: p, op =>
    match es[i]? with
    | none => .error .bad
    | some (k, x) =>
      match applyOp e x p op with
      | .error er => .error er
      | .ok (x', r) => .ok (.umap (es.set i (k, x')), r)
  | .enum _ ps, .variant idx pl, .payload :: p, op =>
    match ps[idx]? with
    | none => .error .bad
    | some .unit => .error .bad
    | some t =>
      match applyOp t pl p op with
      | .error er => .error er
      | .ok (pl', r) => .ok (.variant idx pl', r)
  | _, _, _, _ => .error .bad

/-- The sub-value at a path (what the live accessor of that path sees). -/
def subAt : Shape → Val → List Step → Option (Shape × Val)
  | s, v, [] => some (s, v)
  | .struct _ fs, .record _ vs, .field i :: p =>
    match fs[i]?, vs[i]? with
    | some f, some x => subAt f x p
    | _, _ => none
  | .ulist e, .useq vs, .elem i :: p => match vs[i]? with | some x => subAt e x p | none => none
  | .umap _ e, .umap es, .elem i :: p => match es[i]? with | some kx => subAt e kx.2 p | none => none
  | .enum _ ps, .variant idx pl, .payload :: p =>
    match ps[idx]? with
    | some .unit => none
    | some t => subAt t pl p
    | none => none
  | _, _, _ => none

end Unsized.Spec
