import Unsized.PtrHonestA
namespace Unsized.Ptr
open Common Unsized Unsized.Text Unsized.Machine Unsized.PtrT

/-! ## An honest object entirely AFTER the source: everything shifts, caches included (fix D1) -/

def HonAfterOK (s : Shape) : Prop :=
  ∀ (v : Val) (b hi : Nat) (usz : Nat → Nat) (src : Nat) (neg : Bool) (amt : Nat) (R : PtrTree), src < b →
    (neg = true → amt ≤ b) → b + size s v ≤ hi → (neg = false → hi + amt < Shape.usizeLim) → Hon s v b R →
    ∃ R', resizeNotify usz src neg amt R = some R' ∧ Hon s v (applyDelta neg amt b) R'

theorem honL_after (fs : List Shape) (ih : ∀ f ∈ fs, HonAfterOK f) :
    ∀ (vs : List Val) (b hi : Nat) (usz : Nat → Nat) (src : Nat) (neg : Bool) (amt : Nat) (ks : List PtrTree),
      src < b → (neg = true → amt ≤ b) → b + sizeFields fs vs ≤ hi → (neg = false → hi + amt < Shape.usizeLim) →
      HonL fs vs b ks →
      ∃ ks', notifyL usz src neg amt ks = some ks' ∧ HonL fs vs (applyDelta neg amt b) ks' := by
  induction fs with
  | nil => intro vs b hi usz src neg amt ks _ _ _ _ h; simp only [HonL] at h; subst h; exact ⟨[], by simp [notifyL], by simp [HonL]⟩
  | cons f fs ihf =>
    intro vs b hi usz src neg amt ks hs hn hb hh h
    cases vs with
    | nil => simp only [HonL] at h; subst h; exact ⟨[], by simp [notifyL], by simp [HonL]⟩
    | cons v vs =>
      simp only [sizeFields] at hb
      simp only [HonL] at h
      obtain ⟨k, ks', rfl, hk, hks⟩ := h
      obtain ⟨k1, hk1, hk1'⟩ := ih f List.mem_cons_self v b hi usz src neg amt k hs hn (by omega) hh hk
      obtain ⟨ks1, hks1, hks1'⟩ := ihf (fun g hg => ih g (List.mem_cons_of_mem _ hg)) vs (b + size f v) hi usz src
        neg amt ks' (by omega) (fun h => by have := hn h; omega) (by omega) hh hks
      refine ⟨k1 :: ks1, by simp only [notifyL, hk1, hks1], ?_⟩
      simp only [HonL]
      refine ⟨_, _, rfl, hk1', ?_⟩
      rw [← appD_add neg amt b _ hn]; exact hks1'

theorem honV_after (ps : List Shape) (ih : ∀ p ∈ ps, HonAfterOK p) :
    ∀ (i : Nat) (v : Val) (b hi : Nat) (usz : Nat → Nat) (src : Nat) (neg : Bool) (amt : Nat) (po : Option PtrTree),
      src < b → (neg = true → amt ≤ b) → b + sizeVariant ps i v ≤ hi → (neg = false → hi + amt < Shape.usizeLim) →
      HonV ps i v b po →
      ∃ po', notifyO usz src neg amt po = some po' ∧ HonV ps i v (applyDelta neg amt b) po' := by
  induction ps with
  | nil => intro i v b hi usz src neg amt po _ _ _ _ h; simp only [HonV] at h; subst h; exact ⟨none, by simp [notifyO], by simp [HonV]⟩
  | cons q qs ihq =>
    intro i v b hi usz src neg amt po hs hn hb hh h
    cases i with
    | zero =>
      simp only [sizeVariant] at hb
      by_cases hu : q = .unit
      · subst hu; simp only [HonV] at h; subst h; exact ⟨none, by simp [notifyO], by simp [HonV]⟩
      · have h' := (honV_some (q :: qs) 0 q v b po (by simp) hu).1 h
        obtain ⟨k, rfl, hk⟩ := h'
        obtain ⟨k1, hk1, hk1'⟩ := ih q List.mem_cons_self v b hi usz src neg amt k hs hn hb hh hk
        exact ⟨some k1, by simp only [notifyO, hk1], (honV_some (q :: qs) 0 q v _ _ (by simp) hu).2 ⟨k1, rfl, hk1'⟩⟩
    | succ i =>
      simp only [HonV, sizeVariant] at hb h ⊢
      exact ihq (fun g hg => ih g (List.mem_cons_of_mem _ hg)) i v b hi usz src neg amt po hs hn hb hh h

theorem good_size_pos (e : Shape) (x : Val) (g : Good e x) (hu : e ≠ .unit) (hz : e.zst = false) : 0 < size e x := by
  rw [← encode_size_all e x g.valid]; exact size_pos' e x g hu hz

theorem hon_after (s : Shape) : HonAfterOK s := by
  induction s using Shape.induct' with
  | struct sized fs ih =>
    intro v b hi usz src neg amt R hs hn hb hh h
    have hw : wrapOff neg amt b = applyDelta neg amt b :=
      wrapOff_eq neg amt b hn (fun h => by have := hh h; omega)
    cases v <;> try (simp only [Hon] at h ⊢; subst h; exact ⟨_, by simp only [treeOf, resizeNotify, hs, if_true, hw], rfl⟩)
    rename_i sz vs
    simp only [size] at hb
    simp only [Hon] at h ⊢
    obtain ⟨ks, rfl, hks⟩ := h
    obtain ⟨ks1, hks1, hks1'⟩ := honL_after fs ih vs (b + Fixed.sizeList sized) hi usz src neg amt ks (by omega)
      (fun h => by have := hn h; omega) (by omega) hh hks
    rw [appD_add neg amt b _ hn] at hks1'
    by_cases he : sized.isEmpty = true
    · simp only [he, if_true, resizeNotify, hks1]
      exact ⟨_, rfl, ks1, rfl, hks1'⟩
    · simp only [he, Bool.false_eq_true, if_false, resizeNotify, notifyL, hs, if_true, hw, hks1]
      exact ⟨_, rfl, ks1, rfl, hks1'⟩
  | enum ds ps ih =>
    intro v b hi usz src neg amt R hs hn hb hh h
    have hw : wrapOff neg amt b = applyDelta neg amt b :=
      wrapOff_eq neg amt b hn (fun h => by have := hh h; omega)
    cases v <;> try (simp only [Hon] at h ⊢; subst h; exact ⟨_, by simp only [treeOf, resizeNotify, hs, if_true, hw], rfl⟩)
    rename_i i pl
    simp only [size] at hb
    simp only [Hon] at h ⊢
    obtain ⟨po, rfl, hpo⟩ := h
    obtain ⟨po1, hpo1, hpo1'⟩ := honV_after ps ih i pl (b + 1) hi usz src neg amt po (by omega)
      (fun h => by have := hn h; omega) (by omega) hh hpo
    rw [appD_add neg amt b _ hn] at hpo1'
    simp only [resizeNotify, hpo1, hs, if_true, hw]
    exact ⟨_, rfl, po1, rfl, hpo1'⟩
  | ulist e ih =>
    intro v b hi usz src neg amt R hs hn hb hh h
    have hw : wrapOff neg amt b = applyDelta neg amt b :=
      wrapOff_eq neg amt b hn (fun h => by have := hh h; omega)
    cases v <;> try (simp only [Hon] at h ⊢; subst h; exact ⟨_, by simp only [treeOf, resizeNotify, hs, if_true, hw], rfl⟩)
    rename_i vs
    have hw2 : wrapOff neg amt (b + size (.ulist e) (.useq vs)) = applyDelta neg amt (b + size (.ulist e) (.useq vs)) :=
      wrapOff_eq neg amt _ (fun h => by have := hn h; omega) (fun h => by have := hh h; omega)
    simp only [Hon] at h ⊢
    obtain ⟨inner, pmb, rfl, hin⟩ := h
    rcases hin with rfl | ⟨J, x, b0, rfl, gx, h1, h2, hJ⟩
    · simp only [resizeNotify, notifyO, hs, if_true, hw, hw2]
      exact ⟨_, rfl, none, pmb, by rw [appD_add neg amt b _ hn], Or.inl rfl⟩
    · obtain ⟨J1, hJ1, hJ1'⟩ := ih x b0 hi usz src neg amt J (by omega) (fun h => by have := hn h; omega) (by omega) hh hJ
      simp only [resizeNotify, notifyO, hJ1, hs, if_true, hw, hw2]
      refine ⟨_, rfl, some J1, pmb, by rw [appD_add neg amt b _ hn], Or.inr ⟨J1, x, applyDelta neg amt b0, rfl, gx, ?_, ?_, hJ1'⟩⟩
      · have : b0 = b + (b0 - b) := by omega
        rw [this, appD_add neg amt b _ hn]; omega
      · have : b0 = b + (b0 - b) := by omega
        rw [this, appD_add neg amt b _ hn]; omega
  | umap kw e ih =>
    intro v b hi usz src neg amt R hs hn hb hh h
    have hw : wrapOff neg amt b = applyDelta neg amt b :=
      wrapOff_eq neg amt b hn (fun h => by have := hh h; omega)
    cases v <;> try (simp only [Hon] at h ⊢; subst h; exact ⟨_, by simp only [treeOf, resizeNotify, hs, if_true, hw], rfl⟩)
    rename_i es
    have hw2 : wrapOff neg amt (b + size (.umap kw e) (.umap es)) = applyDelta neg amt (b + size (.umap kw e) (.umap es)) :=
      wrapOff_eq neg amt _ (fun h => by have := hn h; omega) (fun h => by have := hh h; omega)
    simp only [Hon] at h ⊢
    obtain ⟨inner, pmb, rfl, hin⟩ := h
    rcases hin with rfl | ⟨J, x, b0, rfl, gx, h1, h2, hJ⟩
    · simp only [resizeNotify, notifyL, notifyO, hs, if_true, hw, hw2]
      exact ⟨_, rfl, none, pmb, by rw [appD_add neg amt b _ hn], Or.inl rfl⟩
    · obtain ⟨J1, hJ1, hJ1'⟩ := ih x b0 hi usz src neg amt J (by omega) (fun h => by have := hn h; omega) (by omega) hh hJ
      simp only [resizeNotify, notifyL, notifyO, hJ1, hs, if_true, hw, hw2]
      refine ⟨_, rfl, some J1, pmb, by rw [appD_add neg amt b _ hn], Or.inr ⟨J1, x, applyDelta neg amt b0, rfl, gx, ?_, ?_, hJ1'⟩⟩
      · have : b0 = b + (b0 - b) := by omega
        rw [this, appD_add neg amt b _ hn]; omega
      · have : b0 = b + (b0 - b) := by omega
        rw [this, appD_add neg amt b _ hn]; omega
  | disc d inner ih =>
    intro v b hi usz src neg amt R hs hn hb hh h
    simp only [size] at hb
    simp only [Hon] at h ⊢
    obtain ⟨R1, hR1, hR1'⟩ := ih v (b + d.length) hi usz src neg amt R (by omega) (fun h => by have := hn h; omega) (by omega) hh h
    rw [appD_add neg amt b _ hn] at hR1'
    exact ⟨R1, hR1, hR1'⟩
  | unit => intro v b hi usz src neg amt R hs hn hb hh h; simp only [Hon] at h ⊢; subst h; exact ⟨_, by simp [treeOf, resizeNotify, notifyL], rfl⟩
  | _ =>
    intro v b hi usz src neg amt R hs hn hb hh h
    have hw : wrapOff neg amt b = applyDelta neg amt b :=
      wrapOff_eq neg amt b hn (fun h => by have := hh h; omega)
    simp only [Hon] at h ⊢; subst h
    exact ⟨_, by simp only [treeOf, resizeNotify, notifyL, hs, if_true, hw], rfl⟩

end Unsized.Ptr
