import Unsized.PtrHonestN5
import Unsized.MachineAtomicSeq
namespace Unsized.Ptr
open Common Unsized Unsized.Text Unsized.Machine Unsized.PtrT Unsized.PtrM

/-- A traced call whose result left the bytes alone emitted no notification. -/
theorem espec_quiet {m : Mem} {src : Nat} {evs : List Ev} (h : ESpec m src evs) (L : Nat)
    (hl : L = lenAfter m.bytes.length evs) (hL : L = m.bytes.length) : NoNotify evs := by
  rcases h with ⟨hn, _⟩ | ⟨neg, amt, pre, snap, post, hev, _, _, h3, h4, _, h6⟩
  · exact hn
  · exfalso
    rw [hL] at hl; rw [h6] at hl
    cases neg with
    | false => simp only [applyDelta, Bool.false_eq_true, if_false] at hl; omega
    | true => have := h4 rfl; simp only [applyDelta, if_true] at hl; omega

/-- **`Set::insert_all`, every exit** (success, prefix overflow or refused growth at the k-th new element):
`runEvs` over all the events leaves the top object honest for the set with the first k-1 elements inserted. -/
theorem run_setInsertAll_any {s : Shape} {X0 : PBuf} (a : Amb s X0) (w0 : World) (π : List Step) (e : Fixed) (lw : Nat)
    (T : PtrTree) (xs : List (List Nat)) :
    ∀ (v : Val) (m : Mem) (es : List (List Nat)) (n : Nat) (R : PtrTree), Focus s v π (.set e lw) (.seq es) m → Calm m →
      m.orig = X0.mem.orig → HonPath s v X0.base π R T → Hon (.set e lw) (.seq es) (X0.base + offsetOf s v π) T →
      (∀ x ∈ xs, validE e x = true) →
      ∃ m' res evs R' es', setInsertAllT ⟨s, π⟩ e.size lw (offsetOf s v π) xs n m = ((m', res), evs)
        ∧ runEvs w0 X0 R evs = .ok R' ∧ HonPath s (subst s v π (.seq es')) X0.base π R' T
        ∧ Focus s (subst s v π (.seq es')) π (.set e lw) (.seq es') m'
        ∧ m'.orig = m.orig ∧ m'.refuse = m.refuse ∧ Calm m' := by
  induction xs with
  | nil =>
    intro v m es n R F c ho hp hT _
    refine ⟨m, _, [], R, es, rfl, rfl, ?_, F.same, rfl, rfl, c⟩
    rw [subst_self π s v _ _ F.res]; exact hp
  | cons x xs ih =>
    intro v m es n R F c ho hp hT hxs
    have hx := hxs x List.mem_cons_self
    have hxs' : ∀ y ∈ xs, validE e y = true := fun y hy => hxs y (List.mem_cons_of_mem _ hy)
    have hfst := setInsertT_fst ⟨s, π⟩ e.size lw (offsetOf s v π) x m
    have hesp := setInsertT_espec ⟨s, π⟩ e.size lw (offsetOf s v π) x m
    have hlenx := (applyAtT_len_exact F c (.sinsert x)).1
    simp only [applyAtT, hx, if_true] at hlenx
    have hc0 : checkTop X0.rng R = true := by
      have := checkTop_hon (a.ctx w0 F c ho) R (by
        simpa [World.get] using honPath_fill π s v _ _ _ R T F.good F.res hp hT)
      simpa [World.get, PBuf.rng, ho] using this
    simp only [setInsertAllT]
    rcases hT1 : setInsertT ⟨s, π⟩ e.size lw (offsetOf s v π) x m with ⟨⟨mm, rr⟩, ev⟩
    rw [hT1] at hfst hesp hlenx
    simp only [] at hfst hlenx
    rcases setInsert_cases F c.toSmall x hx with ⟨m1, er, hm1, hb, ho1, hr1⟩ | ⟨m1, hm1, F1, ho1, hr1, sm1, _⟩
    · -- this insert fails: nothing changed, the loop stops
      rw [hm1] at hfst
      simp only [Prod.mk.injEq] at hfst
      obtain ⟨rfl, rfl⟩ := hfst
      simp only []
      have hlq : mm.bytes.length = lenAfter m.bytes.length ev := by
        cases hh : (mm, (Except.error er : Except Err Bool)) with
        | mk a1 a2 => simpa using hlenx
      have hnn := espec_quiet hesp _ hlq (by rw [hb])
      refine ⟨mm, _, ev, R, es, rfl, runEvs_noNotify w0 X0 R ev hnn hc0, ?_, (F.same).congr mm hb, ho1, hr1,
        c.next ho1 hr1 (by rw [hb]; exact c.fitsNow)⟩
      rw [subst_self π s v _ _ F.res]; exact hp
    · rw [hm1] at hfst
      simp only [Prod.mk.injEq] at hfst
      obtain ⟨rfl, rfl⟩ := hfst
      simp only []
      have c1 : Calm mm := c.next ho1 hr1 (by rw [← ho1]; exact sm1.fitsNow)
      obtain ⟨hoff, hplug, hss⟩ := F.next_facts _ mm F1 (by have := c1.fitsNow; have := c1.small; omega)
      obtain ⟨R1, hrun1, hp1⟩ := run_trace (a.ctx w0 F c ho) w0 X0 rfl (by simp [World.get, PBuf.rng, ho]) π _ _
        (.seq (setStep e.size x es)) F.res rfl F1.good R T (by simpa [World.get] using hp) (by simpa [World.get] using hT)
        ev (by simpa [World.get] using hesp)
        (by simp only [World.get]; rw [← F1.bytes]; simpa using hlenx)
        (by simp only [World.get]; rw [← F1.bytes, ← ho1]; exact sm1.fitsNow)
      simp only [World.get] at hp1
      have hT1' : Hon (.set e lw) (.seq (setStep e.size x es))
          (X0.base + offsetOf s (subst s v π (.seq (setStep e.size x es))) π) T := by
        rw [hoff]; exact (hon_leafy _ _ _ _ T rfl hT).2
      obtain ⟨m', res, evs, R', es', hm', hrun, hp', F', ho', hr', c'⟩ := ih _ mm _
        (if (!Spec.hasKey e.size (rdLE x) es) = true then n + 1 else n) R1 F1 c1 (by rw [ho1]; exact ho) hp1 hT1' hxs'
      rw [hoff] at hm'
      rw [hss] at hp' F'
      refine ⟨m', res, ev ++ evs, R', es', by rw [hm'], ?_, hp', F', by rw [ho', ho1], by rw [hr', hr1], c'⟩
      rw [runEvs_append_ok w0 X0 R R1 ev evs hrun1]; exact hrun


/-- **`Map::insert_all`, every exit.** -/
theorem run_mapInsertAll_any {s : Shape} {X0 : PBuf} (a : Amb s X0) (w0 : World) (π : List Step) (kw : Nat) (f : Fixed)
    (lw : Nat) (T : PtrTree) (kvs : List (List Nat × List Nat)) :
    ∀ (v : Val) (m : Mem) (es : List (List Nat)) (n : Nat) (R : PtrTree), Focus s v π (.map kw f lw) (.seq es) m → Calm m →
      m.orig = X0.mem.orig → HonPath s v X0.base π R T → Hon (.map kw f lw) (.seq es) (X0.base + offsetOf s v π) T →
      (∀ kx ∈ kvs, kx.1.length = kw ∧ BytesWF kx.1 ∧ validE f kx.2 = true) →
      ∃ m' res evs R' es', mapInsertAllT ⟨s, π⟩ kw f.size lw (offsetOf s v π) kvs n m = ((m', res), evs)
        ∧ runEvs w0 X0 R evs = .ok R' ∧ HonPath s (subst s v π (.seq es')) X0.base π R' T
        ∧ Focus s (subst s v π (.seq es')) π (.map kw f lw) (.seq es') m'
        ∧ m'.orig = m.orig ∧ m'.refuse = m.refuse ∧ Calm m' := by
  induction kvs with
  | nil =>
    intro v m es n R F c ho hp hT _
    refine ⟨m, _, [], R, es, rfl, rfl, ?_, F.same, rfl, rfl, c⟩
    rw [subst_self π s v _ _ F.res]; exact hp
  | cons kx kvs ih =>
    intro v m es n R F c ho hp hT hkvs
    obtain ⟨k, x⟩ := kx
    obtain ⟨hk, hkw, hx⟩ := hkvs (k, x) List.mem_cons_self
    simp only [] at hk hkw hx
    have hkvs' : ∀ kx ∈ kvs, kx.1.length = kw ∧ BytesWF kx.1 ∧ validE f kx.2 = true :=
      fun y hy => hkvs y (List.mem_cons_of_mem _ hy)
    have hfst := mapInsertT_fst ⟨s, π⟩ kw f.size lw (offsetOf s v π) k x m
    have hesp := mapInsertT_espec ⟨s, π⟩ kw f.size lw (offsetOf s v π) k x m
    have hlenx := (applyAtT_len_exact F c (.minsert k x)).1
    have hcond : (k.length == kw && decide (BytesWF k) && validE f x) = true := by simp [hk, hkw, hx]
    simp only [applyAtT, hcond, if_true] at hlenx
    have hc0 : checkTop X0.rng R = true := by
      have := checkTop_hon (a.ctx w0 F c ho) R (by
        simpa [World.get] using honPath_fill π s v _ _ _ R T F.good F.res hp hT)
      simpa [World.get, PBuf.rng, ho] using this
    simp only [mapInsertAllT]
    rcases hT1 : mapInsertT ⟨s, π⟩ kw f.size lw (offsetOf s v π) k x m with ⟨⟨mm, rr⟩, ev⟩
    rw [hT1] at hfst hesp hlenx
    simp only [] at hfst hlenx
    rcases mapInsert_cases F c.toSmall k x hk hkw hx with ⟨m1, er, hm1, hb, ho1, hr1⟩ | ⟨m1, hm1, F1, ho1, hr1, sm1, _⟩
    · rw [hm1] at hfst
      simp only [Prod.mk.injEq] at hfst
      obtain ⟨rfl, rfl⟩ := hfst
      simp only []
      have hlq : mm.bytes.length = lenAfter m.bytes.length ev := by simpa using hlenx
      have hnn := espec_quiet hesp _ hlq (by rw [hb])
      refine ⟨mm, _, ev, R, es, rfl, runEvs_noNotify w0 X0 R ev hnn hc0, ?_, (F.same).congr mm hb, ho1, hr1,
        c.next ho1 hr1 (by rw [hb]; exact c.fitsNow)⟩
      rw [subst_self π s v _ _ F.res]; exact hp
    · rw [hm1] at hfst
      simp only [Prod.mk.injEq] at hfst
      obtain ⟨rfl, rfl⟩ := hfst
      simp only []
      have c1 : Calm mm := c.next ho1 hr1 (by rw [← ho1]; exact sm1.fitsNow)
      obtain ⟨hoff, hplug, hss⟩ := F.next_facts _ mm F1 (by have := c1.fitsNow; have := c1.small; omega)
      obtain ⟨R1, hrun1, hp1⟩ := run_trace (a.ctx w0 F c ho) w0 X0 rfl (by simp [World.get, PBuf.rng, ho]) π _ _
        (.seq (insKey kw (k ++ x) es)) F.res rfl F1.good R T (by simpa [World.get] using hp) (by simpa [World.get] using hT)
        ev (by simpa [World.get] using hesp)
        (by simp only [World.get]; rw [← F1.bytes]; simpa using hlenx)
        (by simp only [World.get]; rw [← F1.bytes, ← ho1]; exact sm1.fitsNow)
      simp only [World.get] at hp1
      have hT1' : Hon (.map kw f lw) (.seq (insKey kw (k ++ x) es))
          (X0.base + offsetOf s (subst s v π (.seq (insKey kw (k ++ x) es))) π) T := by
        rw [hoff]; exact (hon_leafy _ _ _ _ T rfl hT).2
      obtain ⟨m', res, evs, R', es', hm', hrun, hp', F', ho', hr', c'⟩ := ih _ mm _
        (if ((Spec.findKey kw (rdLE k) es).map (List.drop kw)).isNone = true then n + 1 else n) R1 F1 c1
        (by rw [ho1]; exact ho) hp1 hT1' hkvs'
      rw [hoff] at hm'
      rw [hss] at hp' F'
      refine ⟨m', res, ev ++ evs, R', es', by rw [hm'], ?_, hp', F', by rw [ho', ho1], by rw [hr', hr1], c'⟩
      rw [runEvs_append_ok w0 X0 R R1 ev evs hrun1]; exact hrun

end Unsized.Ptr
