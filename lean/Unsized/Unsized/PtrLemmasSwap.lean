import Unsized.PtrLemmas
/-!
# Lemmas for `swap_detected`: non-emptiness (`solid`), address ranges of fresh pointers,
subtrees and replaced subtrees
-/
namespace Unsized.PtrT
open Common Unsized

/-! ## `solid`: every struct pointer on the way has at least one child -/

mutual
/-- No empty struct pointer anywhere in the tree (true of every `T::Ptr`: the struct macro requires
at least one field, `struct_impl.rs` "self should have fields"). -/
def solid : PtrTree → Bool
  | .leaf _ _ => true
  | .ulist _ _ _ _ _ inner _ => solidO inner
  | .node ks => !ks.isEmpty && solidL ks
  | .start _ _ p => solidO p
def solidO : Option PtrTree → Bool
  | none => true
  | some t => solid t
def solidL : List PtrTree → Bool
  | [] => true
  | t :: ts => solid t && solidL ts
end

theorem solid_addrs_all :
    (∀ t, solid t = true → addrs t ≠ []) ∧
    (∀ o t, o = some t → solid t = true → addrs t ≠ []) ∧
    (∀ l, solidL l = true → l ≠ [] → addrsL l ≠ []) := by
  apply PtrTree.induct3
  · intro k a _; simp [addrs]
  · intro cw a len lo hi inner pmb _ _; simp [addrs]
  · intro ks ih h
    simp only [solid, Bool.and_eq_true, Bool.not_eq_true', List.isEmpty_eq_false_iff] at h
    simp only [addrs]
    exact ih h.2 h.1
  · intro a idx p _ _; simp [addrs]
  · intro t h; cases h
  · intro t ih t' h; cases h; exact ih
  · intro _ h; exact absurd rfl h
  · intro t ts ih1 _ h _
    simp only [solidL, Bool.and_eq_true] at h
    simp only [addrsL]
    intro hc
    have := List.append_eq_nil_iff.mp hc
    exact ih1 h.1 this.1

/-- **`ptrtree_nonempty`**: a solid pointer tree contains at least one address. -/
theorem solid_addrs (t : PtrTree) (h : solid t = true) : addrs t ≠ [] := solid_addrs_all.1 t h

theorem solidL_get (ks : List PtrTree) (i : Nat) (k : PtrTree) (h : solidL ks = true) (hk : ks[i]? = some k) :
    solid k = true := by
  induction ks generalizing i with
  | nil => simp at hk
  | cons t ts ih =>
    simp only [solidL, Bool.and_eq_true] at h
    cases i with
    | zero => simp at hk; subst hk; exact h.1
    | succ i => exact ih i h.2 (by simpa using hk)

theorem solidL_set (ks : List PtrTree) (i : Nat) (k : PtrTree) (h : solidL ks = true) (hk : solid k = true) :
    solidL (ks.set i k) = true := by
  induction ks generalizing i with
  | nil => simp [solidL]
  | cons t ts ih =>
    simp only [solidL, Bool.and_eq_true] at h
    cases i with
    | zero => simp [solidL, h.2, hk]
    | succ i => simp [solidL, h.1, ih i h.2]

/-- Subtrees of solid trees are solid. -/
theorem solid_subtreeAt (p : List TStep) : ∀ (t q : PtrTree), solid t = true → subtreeAt t p = some q →
    solid q = true := by
  induction p with
  | nil => intro t q h hs; simp [subtreeAt] at hs; subst hs; exact h
  | cons st p ih =>
    intro t q h hs
    cases t with
    | leaf k a => simp [subtreeAt] at hs
    | ulist cw a len lo hi inner pmb =>
      cases inner with
      | none => cases st <;> simp [subtreeAt] at hs
      | some t1 =>
        cases st with
        | inner => simp only [subtreeAt] at hs; exact ih t1 q (by simpa [solid, solidO] using h) hs
        | kid i => simp [subtreeAt] at hs
        | payload => simp [subtreeAt] at hs
    | node ks =>
      cases st with
      | kid i =>
        simp only [subtreeAt] at hs
        cases hk : ks[i]? with
        | none => simp [hk] at hs
        | some k =>
          simp only [hk] at hs
          simp only [solid, Bool.and_eq_true] at h
          exact ih k q (solidL_get ks i k h.2 hk) hs
      | inner => simp [subtreeAt] at hs
      | payload => simp [subtreeAt] at hs
    | start a idx pl =>
      cases pl with
      | none => cases st <;> simp [subtreeAt] at hs
      | some t1 =>
        cases st with
        | payload => simp only [subtreeAt] at hs; exact ih t1 q (by simpa [solid, solidO] using h) hs
        | kid i => simp [subtreeAt] at hs
        | inner => simp [subtreeAt] at hs

/-! ## Addresses of subtrees and of trees with a replaced subtree -/

theorem addrsL_get (ks : List PtrTree) (i : Nat) (k : PtrTree) (hk : ks[i]? = some k) :
    ∀ a ∈ addrs k, a ∈ addrsL ks := by
  induction ks generalizing i with
  | nil => simp at hk
  | cons t ts ih =>
    intro a ha
    simp only [addrsL, List.mem_append]
    cases i with
    | zero => simp at hk; subst hk; exact Or.inl ha
    | succ i => exact Or.inr (ih i (by simpa using hk) a ha)

theorem addrsL_set (ks : List PtrTree) (i : Nat) (k : PtrTree) (hi : i < ks.length) :
    ∀ a ∈ addrs k, a ∈ addrsL (ks.set i k) := by
  induction ks generalizing i with
  | nil => simp at hi
  | cons t ts ih =>
    intro a ha
    cases i with
    | zero => simp only [List.set_cons_zero, addrsL, List.mem_append]; exact Or.inl ha
    | succ i =>
      simp only [List.set_cons_succ, addrsL, List.mem_append]
      exact Or.inr (ih i (by simpa using hi) a ha)

/-- The addresses of a subtree are addresses of the tree. -/
theorem addrs_subtreeAt (p : List TStep) : ∀ (t q : PtrTree), subtreeAt t p = some q →
    ∀ a ∈ addrs q, a ∈ addrs t := by
  induction p with
  | nil => intro t q hs a ha; simp [subtreeAt] at hs; subst hs; exact ha
  | cons st p ih =>
    intro t q hs a ha
    cases t with
    | leaf k a => simp [subtreeAt] at hs
    | ulist cw a' len lo hi inner pmb =>
      cases inner with
      | none => cases st <;> simp [subtreeAt] at hs
      | some t1 =>
        cases st with
        | inner =>
          simp only [subtreeAt] at hs
          simp only [addrs, addrsO, List.mem_cons]
          exact Or.inr (ih t1 q hs a ha)
        | kid i => simp [subtreeAt] at hs
        | payload => simp [subtreeAt] at hs
    | node ks =>
      cases st with
      | kid i =>
        simp only [subtreeAt] at hs
        cases hk : ks[i]? with
        | none => simp [hk] at hs
        | some k =>
          simp only [hk] at hs
          simp only [addrs]
          exact addrsL_get ks i k hk a (ih k q hs a ha)
      | inner => simp [subtreeAt] at hs
      | payload => simp [subtreeAt] at hs
    | start a' idx pl =>
      cases pl with
      | none => cases st <;> simp [subtreeAt] at hs
      | some t1 =>
        cases st with
        | payload =>
          simp only [subtreeAt] at hs
          simp only [addrs, addrsO, List.mem_cons]
          exact Or.inr (ih t1 q hs a ha)
        | kid i => simp [subtreeAt] at hs
        | inner => simp [subtreeAt] at hs

/-- After replacing a subtree by `q`, every address of `q` is an address of the result. -/
theorem addrs_replaceAt (p : List TStep) : ∀ (t q t' : PtrTree), replaceAt t p q = some t' →
    ∀ a ∈ addrs q, a ∈ addrs t' := by
  induction p with
  | nil => intro t q t' hs a ha; simp [replaceAt] at hs; subst hs; exact ha
  | cons st p ih =>
    intro t q t' hs a ha
    cases t with
    | leaf k a => simp [replaceAt] at hs
    | ulist cw a' len lo hi inner pmb =>
      cases inner with
      | none => cases st <;> simp [replaceAt] at hs
      | some t1 =>
        cases st with
        | inner =>
          simp only [replaceAt] at hs
          cases hr : replaceAt t1 p q with
          | none => simp [hr] at hs
          | some t1' =>
            simp only [hr, Option.some.injEq] at hs
            subst hs
            simp only [addrs, addrsO, List.mem_cons]
            exact Or.inr (ih t1 q t1' hr a ha)
        | kid i => simp [replaceAt] at hs
        | payload => simp [replaceAt] at hs
    | node ks =>
      cases st with
      | kid i =>
        simp only [replaceAt] at hs
        cases hk : ks[i]? with
        | none => simp [hk] at hs
        | some k =>
          simp only [hk] at hs
          cases hr : replaceAt k p q with
          | none => simp [hr] at hs
          | some k' =>
            simp only [hr, Option.some.injEq] at hs
            subst hs
            simp only [addrs]
            have hi : i < ks.length := by
              rcases Nat.lt_or_ge i ks.length with h | h
              · exact h
              · simp [List.getElem?_eq_none h] at hk
            exact addrsL_set ks i k' hi a (ih k q k' hr a ha)
      | inner => simp [replaceAt] at hs
      | payload => simp [replaceAt] at hs
    | start a' idx pl =>
      cases pl with
      | none => cases st <;> simp [replaceAt] at hs
      | some t1 =>
        cases st with
        | payload =>
          simp only [replaceAt] at hs
          cases hr : replaceAt t1 p q with
          | none => simp [hr] at hs
          | some t1' =>
            simp only [hr, Option.some.injEq] at hs
            subst hs
            simp only [addrs, addrsO, List.mem_cons]
            exact Or.inr (ih t1 q t1' hr a ha)
        | kid i => simp [replaceAt] at hs
        | inner => simp [replaceAt] at hs

/-- `replaceAt` succeeds exactly on the paths where `subtreeAt` does. -/
theorem replaceAt_isSome (p : List TStep) : ∀ (t q s : PtrTree), subtreeAt t p = some s →
    ∃ t', replaceAt t p q = some t' := by
  induction p with
  | nil => intro t q s _; exact ⟨q, rfl⟩
  | cons st p ih =>
    intro t q s hs
    cases t with
    | leaf k a => simp [subtreeAt] at hs
    | ulist cw a' len lo hi inner pmb =>
      cases inner with
      | none => cases st <;> simp [subtreeAt] at hs
      | some t1 =>
        cases st with
        | inner =>
          simp only [subtreeAt] at hs
          obtain ⟨t1', h1⟩ := ih t1 q s hs
          exact ⟨_, by simp only [replaceAt, h1]; rfl⟩
        | kid i => simp [subtreeAt] at hs
        | payload => simp [subtreeAt] at hs
    | node ks =>
      cases st with
      | kid i =>
        simp only [subtreeAt] at hs
        cases hk : ks[i]? with
        | none => simp [hk] at hs
        | some k =>
          simp only [hk] at hs
          obtain ⟨k', h1⟩ := ih k q s hs
          exact ⟨_, by simp only [replaceAt, hk, h1]; rfl⟩
      | inner => simp [subtreeAt] at hs
      | payload => simp [subtreeAt] at hs
    | start a' idx pl =>
      cases pl with
      | none => cases st <;> simp [subtreeAt] at hs
      | some t1 =>
        cases st with
        | payload =>
          simp only [subtreeAt] at hs
          obtain ⟨t1', h1⟩ := ih t1 q s hs
          exact ⟨_, by simp only [replaceAt, h1]; rfl⟩
        | kid i => simp [subtreeAt] at hs
        | inner => simp [subtreeAt] at hs



/-! ## Fresh pointers: address range and solidity -/

/-- Every address of a fresh pointer lies in `[base, base + consumed]`. -/
theorem getPtr_range_all (s : Shape) :
    ∀ bs base t n, getPtr s bs base = .ok (t, n) → ∀ a ∈ addrs t, base ≤ a ∧ a ≤ base + n := by
  induction s using Shape.induct' with
  | fixed f =>
    intro bs base t n h a ha
    simp only [getPtr] at h
    cases hx : extentFixed f bs with
    | error e => simp [hx] at h
    | ok m => simp [hx] at h; obtain ⟨rfl, rfl⟩ := h; simp [addrs] at ha; omega
  | list e lw =>
    intro bs base t n h a ha
    simp only [getPtr] at h
    cases hx : extentList e.size lw bs with
    | error e => simp [hx] at h
    | ok m => simp [hx] at h; obtain ⟨rfl, rfl⟩ := h; simp [addrs] at ha; omega
  | set e lw =>
    intro bs base t n h a ha
    simp only [getPtr] at h
    cases hx : extentList e.size lw bs with
    | error e => simp [hx] at h
    | ok m => simp [hx] at h; obtain ⟨rfl, rfl⟩ := h; simp [addrs, addrsL] at ha; omega
  | map kw v lw =>
    intro bs base t n h a ha
    simp only [getPtr] at h
    cases hx : extentList (kw + v.size) lw bs with
    | error e => simp [hx] at h
    | ok m => simp [hx] at h; obtain ⟨rfl, rfl⟩ := h; simp [addrs, addrsL] at ha; omega
  | str lw =>
    intro bs base t n h a ha
    simp only [getPtr] at h
    cases hx : extentList 1 lw bs with
    | error e => simp [hx] at h
    | ok m => simp [hx] at h; obtain ⟨rfl, rfl⟩ := h; simp [addrs, addrsL] at ha; omega
  | rem =>
    intro bs base t n h a ha
    simp only [getPtr, Except.ok.injEq, Prod.mk.injEq] at h
    obtain ⟨rfl, rfl⟩ := h; simp [addrs] at ha; omega
  | ulist e _ =>
    intro bs base t n h a ha
    simp only [getPtr] at h
    cases hx : extentUlist 4 bs with
    | error e => simp [hx] at h
    | ok m => simp [hx] at h; obtain ⟨rfl, rfl⟩ := h; simp [addrs, addrsO] at ha; omega
  | umap kw e _ =>
    intro bs base t n h a ha
    simp only [getPtr] at h
    cases hx : extentUlist (Shape.entryW kw) bs with
    | error e => simp [hx] at h
    | ok m => simp [hx] at h; obtain ⟨rfl, rfl⟩ := h; simp [addrs, addrsL, addrsO] at ha; omega
  | unit =>
    intro bs base t n h a ha
    simp only [getPtr, Except.ok.injEq, Prod.mk.injEq] at h
    obtain ⟨rfl, rfl⟩ := h; simp [addrs, addrsL] at ha
  | disc d inner ih =>
    intro bs base t n h a ha
    simp only [getPtr] at h
    split at h
    · cases hg : getPtr inner (List.drop d.length bs) (base + d.length) with
      | error e => simp [hg] at h
      | ok tn =>
        obtain ⟨t1, n1⟩ := tn
        simp [hg] at h
        obtain ⟨rfl, rfl⟩ := h
        have := ih _ _ _ _ hg a ha
        omega
    · simp at h
  | struct sized fs ih =>
    have hf : ∀ (fs : List Shape), (∀ f ∈ fs, ∀ bs base t n, getPtr f bs base = .ok (t, n) →
          ∀ a ∈ addrs t, base ≤ a ∧ a ≤ base + n) →
        ∀ bs base ts n, getPtrFields fs bs base = .ok (ts, n) → ∀ a ∈ addrsL ts, base ≤ a ∧ a ≤ base + n := by
      intro fs
      induction fs with
      | nil =>
        intro _ bs base ts n h a ha
        simp only [getPtrFields, Except.ok.injEq, Prod.mk.injEq] at h
        obtain ⟨rfl, rfl⟩ := h; simp [addrsL] at ha
      | cons f fs ihf =>
        intro hall bs base ts n h a ha
        simp only [getPtrFields] at h
        cases hg : getPtr f bs base with
        | error e => simp [hg] at h
        | ok tn =>
          obtain ⟨t1, n1⟩ := tn
          simp only [hg] at h
          cases hg2 : getPtrFields fs (List.drop n1 bs) (base + n1) with
          | error e => simp [hg2] at h
          | ok tsm =>
            obtain ⟨ts2, m⟩ := tsm
            simp only [hg2, Except.ok.injEq, Prod.mk.injEq] at h
            obtain ⟨rfl, rfl⟩ := h
            simp only [addrsL, List.mem_append] at ha
            cases ha with
            | inl ha => have := hall f (by simp) _ _ _ _ hg a ha; omega
            | inr ha =>
              have := ihf (fun g hg' => hall g (by simp [hg'])) _ _ _ _ hg2 a ha
              omega
    intro bs base t n h a ha
    simp only [getPtr] at h
    split at h
    · cases hg2 : getPtrFields fs bs base with
      | error e => simp [hg2] at h
      | ok tsm =>
        obtain ⟨ts2, m⟩ := tsm
        simp only [hg2, Except.ok.injEq, Prod.mk.injEq] at h
        obtain ⟨rfl, rfl⟩ := h
        simp only [addrs] at ha
        exact hf fs ih _ _ _ _ hg2 a ha
    · cases hx : extentFixed (.record sized) bs with
      | error e => simp [hx] at h
      | ok n0 =>
        simp only [hx] at h
        cases hg2 : getPtrFields fs (List.drop n0 bs) (base + n0) with
        | error e => simp [hg2] at h
        | ok tsm =>
          obtain ⟨ts2, m⟩ := tsm
          simp only [hg2, Except.ok.injEq, Prod.mk.injEq] at h
          obtain ⟨rfl, rfl⟩ := h
          simp only [addrs, addrsL, List.mem_append, List.mem_singleton] at ha
          cases ha with
          | inl ha => omega
          | inr ha => have := hf fs ih _ _ _ _ hg2 a ha; omega
  | «enum» ds ps ih =>
    have hv : ∀ (ds : List Nat) (ps : List Shape),
        (∀ p ∈ ps, ∀ bs base t n, getPtr p bs base = .ok (t, n) → ∀ a ∈ addrs t, base ≤ a ∧ a ≤ base + n) →
        ∀ r bs base i idx o n, getPtrVariant ds ps r bs base i = .ok (idx, o, n) →
          ∀ a ∈ addrsO o, base ≤ a ∧ a ≤ base + n := by
      intro ds
      induction ds with
      | nil => intro ps _ r bs base i idx o n h; cases ps <;> simp [getPtrVariant] at h
      | cons d ds ihd =>
        intro ps hall r bs base i idx o n h a ha
        cases ps with
        | nil => simp [getPtrVariant] at h
        | cons p ps =>
          simp only [getPtrVariant] at h
          split at h
          · cases hg : getPtr p bs base with
            | error e => simp [hg] at h
            | ok tn =>
              obtain ⟨t1, n1⟩ := tn
              simp only [hg, Except.ok.injEq, Prod.mk.injEq] at h
              obtain ⟨rfl, rfl, rfl⟩ := h
              split at ha
              · simp [addrsO] at ha
              · simp only [addrsO] at ha
                exact hall p (by simp) _ _ _ _ hg a ha
          · exact ihd ps (fun q hq => hall q (by simp [hq])) r bs base (i + 1) idx o n h a ha
    intro bs base t n h a ha
    simp only [getPtr] at h
    cases bs with
    | nil => simp at h
    | cons r rest =>
      simp only [] at h
      cases hg2 : getPtrVariant ds ps r rest (base + 1) 0 with
      | error e => simp [hg2] at h
      | ok x =>
        obtain ⟨idx, o, m⟩ := x
        simp only [hg2, Except.ok.injEq, Prod.mk.injEq] at h
        obtain ⟨rfl, rfl⟩ := h
        simp only [addrs, List.mem_cons] at ha
        cases ha with
        | inl ha => omega
        | inr ha => have := hv ds ps ih _ _ _ _ _ _ _ hg2 a ha; omega

theorem getPtr_range (s : Shape) (bs : List Nat) (base : Nat) (t : PtrTree) (n : Nat)
    (h : getPtr s bs base = .ok (t, n)) : ∀ a ∈ addrs t, base ≤ a ∧ a ≤ base + n :=
  getPtr_range_all s bs base t n h


theorem isUnit_of_okAux_false (s : Shape) (top : Bool) (h : Shape.okAux top false s = true) :
    Shape.isUnit s = false := by
  cases s <;> simp [Shape.isUnit, Shape.okAux] at h ⊢

/-- A fresh pointer of a well-formed (non-`unit`) shape is solid. -/
theorem getPtr_solid_all (s : Shape) :
    ∀ top ie, Shape.okAux top ie s = true → Shape.isUnit s = false →
      ∀ bs base t n, getPtr s bs base = .ok (t, n) → solid t = true := by
  induction s using Shape.induct' with
  | fixed f =>
    intro top ie _ _ bs base t n h
    simp only [getPtr] at h
    cases hx : extentFixed f bs with
    | error e => simp [hx] at h
    | ok m => simp [hx] at h; obtain ⟨rfl, rfl⟩ := h; rfl
  | list e lw =>
    intro top ie _ _ bs base t n h
    simp only [getPtr] at h
    cases hx : extentList e.size lw bs with
    | error e => simp [hx] at h
    | ok m => simp [hx] at h; obtain ⟨rfl, rfl⟩ := h; rfl
  | set e lw =>
    intro top ie _ _ bs base t n h
    simp only [getPtr] at h
    cases hx : extentList e.size lw bs with
    | error e => simp [hx] at h
    | ok m => simp [hx] at h; obtain ⟨rfl, rfl⟩ := h; rfl
  | map kw v lw =>
    intro top ie _ _ bs base t n h
    simp only [getPtr] at h
    cases hx : extentList (kw + v.size) lw bs with
    | error e => simp [hx] at h
    | ok m => simp [hx] at h; obtain ⟨rfl, rfl⟩ := h; rfl
  | str lw =>
    intro top ie _ _ bs base t n h
    simp only [getPtr] at h
    cases hx : extentList 1 lw bs with
    | error e => simp [hx] at h
    | ok m => simp [hx] at h; obtain ⟨rfl, rfl⟩ := h; rfl
  | rem =>
    intro top ie _ _ bs base t n h
    simp only [getPtr, Except.ok.injEq, Prod.mk.injEq] at h
    obtain ⟨rfl, rfl⟩ := h; rfl
  | ulist e _ =>
    intro top ie _ _ bs base t n h
    simp only [getPtr] at h
    cases hx : extentUlist 4 bs with
    | error e => simp [hx] at h
    | ok m => simp [hx] at h; obtain ⟨rfl, rfl⟩ := h; rfl
  | umap kw e _ =>
    intro top ie _ _ bs base t n h
    simp only [getPtr] at h
    cases hx : extentUlist (Shape.entryW kw) bs with
    | error e => simp [hx] at h
    | ok m => simp [hx] at h; obtain ⟨rfl, rfl⟩ := h; rfl
  | unit => intro top ie _ hu; simp [Shape.isUnit] at hu
  | disc d inner ih =>
    intro top ie hok _ bs base t n h
    simp only [Shape.okAux, Bool.and_eq_true] at hok
    simp only [getPtr] at h
    split at h
    · cases hg : getPtr inner (List.drop d.length bs) (base + d.length) with
      | error e => simp [hg] at h
      | ok tn =>
        obtain ⟨t1, n1⟩ := tn
        simp [hg] at h
        obtain ⟨rfl, rfl⟩ := h
        exact ih false false hok.2 (isUnit_of_okAux_false inner false hok.2) _ _ _ _ hg
    · simp at h
  | struct sized fs ih =>
    have hf : ∀ (fs : List Shape), (∀ f ∈ fs, ∀ top ie, Shape.okAux top ie f = true → Shape.isUnit f = false →
          ∀ bs base t n, getPtr f bs base = .ok (t, n) → solid t = true) →
        Shape.okFields fs = true →
        ∀ bs base ts n, getPtrFields fs bs base = .ok (ts, n) → solidL ts = true ∧ ts.length = fs.length := by
      intro fs
      induction fs with
      | nil =>
        intro _ _ bs base ts n h
        simp only [getPtrFields, Except.ok.injEq, Prod.mk.injEq] at h
        obtain ⟨rfl, rfl⟩ := h; exact ⟨rfl, rfl⟩
      | cons f fs ihf =>
        intro hall hok bs base ts n h
        have hokf : Shape.okAux false false f = true ∧ Shape.okFields fs = true := by
          cases fs with
          | nil => simp [Shape.okFields] at hok ⊢; exact hok
          | cons g gs => simp [Shape.okFields] at hok ⊢; exact ⟨hok.1.1, hok.2⟩
        simp only [getPtrFields] at h
        cases hg : getPtr f bs base with
        | error e => simp [hg] at h
        | ok tn =>
          obtain ⟨t1, n1⟩ := tn
          simp only [hg] at h
          cases hg2 : getPtrFields fs (List.drop n1 bs) (base + n1) with
          | error e => simp [hg2] at h
          | ok tsm =>
            obtain ⟨ts2, m⟩ := tsm
            simp only [hg2, Except.ok.injEq, Prod.mk.injEq] at h
            obtain ⟨rfl, rfl⟩ := h
            have h1 := hall f (by simp) false false hokf.1 (isUnit_of_okAux_false f false hokf.1) _ _ _ _ hg
            have h2 := ihf (fun g hg' => hall g (by simp [hg'])) hokf.2 _ _ _ _ hg2
            exact ⟨by simp [solidL, h1, h2.1], by simp [h2.2]⟩
    intro top ie hok _ bs base t n h
    simp only [Shape.okAux, Bool.and_eq_true, Bool.not_eq_true', List.isEmpty_eq_false_iff] at hok
    simp only [getPtr] at h
    split at h
    · cases hg2 : getPtrFields fs bs base with
      | error e => simp [hg2] at h
      | ok tsm =>
        obtain ⟨ts2, m⟩ := tsm
        simp only [hg2, Except.ok.injEq, Prod.mk.injEq] at h
        obtain ⟨rfl, rfl⟩ := h
        have := hf fs ih hok.2 _ _ _ _ hg2
        have hne : ts2 ≠ [] := by
          intro hc; rw [hc] at this; simp at this; exact hok.1.2 (List.eq_nil_of_length_eq_zero this.2.symm)
        simp [solid, this.1, hne]
    · cases hx : extentFixed (.record sized) bs with
      | error e => simp [hx] at h
      | ok n0 =>
        simp only [hx] at h
        cases hg2 : getPtrFields fs (List.drop n0 bs) (base + n0) with
        | error e => simp [hg2] at h
        | ok tsm =>
          obtain ⟨ts2, m⟩ := tsm
          simp only [hg2, Except.ok.injEq, Prod.mk.injEq] at h
          obtain ⟨rfl, rfl⟩ := h
          have := hf fs ih hok.2 _ _ _ _ hg2
          simp [solid, solidL, this.1]
  | «enum» ds ps ih =>
    have hv : ∀ (ds : List Nat) (ps : List Shape),
        (∀ p ∈ ps, ∀ top ie, Shape.okAux top ie p = true → Shape.isUnit p = false →
          ∀ bs base t n, getPtr p bs base = .ok (t, n) → solid t = true) →
        Shape.okPayloads ps = true →
        ∀ r bs base i idx o n, getPtrVariant ds ps r bs base i = .ok (idx, o, n) → solidO o = true := by
      intro ds
      induction ds with
      | nil => intro ps _ _ r bs base i idx o n h; cases ps <;> simp [getPtrVariant] at h
      | cons d ds ihd =>
        intro ps hall hok r bs base i idx o n h
        cases ps with
        | nil => simp [getPtrVariant] at h
        | cons p ps =>
          simp only [Shape.okPayloads, Bool.and_eq_true] at hok
          simp only [getPtrVariant] at h
          split at h
          · cases hg : getPtr p bs base with
            | error e => simp [hg] at h
            | ok tn =>
              obtain ⟨t1, n1⟩ := tn
              simp only [hg, Except.ok.injEq, Prod.mk.injEq] at h
              obtain ⟨rfl, rfl, rfl⟩ := h
              cases hu : Shape.isUnit p with
              | true => simp [solidO]
              | false => simp only [Bool.false_eq_true, ↓reduceIte, solidO]; exact hall p (by simp) false true hok.1 hu _ _ _ _ hg
          · exact ihd ps (fun q hq => hall q (by simp [hq])) hok.2 r bs base (i + 1) idx o n h
    intro top ie hok _ bs base t n h
    simp only [Shape.okAux, Bool.and_eq_true] at hok
    simp only [getPtr] at h
    cases bs with
    | nil => simp at h
    | cons r rest =>
      simp only [] at h
      cases hg2 : getPtrVariant ds ps r rest (base + 1) 0 with
      | error e => simp [hg2] at h
      | ok x =>
        obtain ⟨idx, o, m⟩ := x
        simp only [hg2, Except.ok.injEq, Prod.mk.injEq] at h
        obtain ⟨rfl, rfl⟩ := h
        simp only [solid]
        exact hv ds ps ih hok.2 _ _ _ _ _ _ _ hg2

/-- `get_ptr` of a well-formed top-level shape yields a solid pointer tree. -/
theorem getPtr_solid (s : Shape) (hok : s.ok = true) (bs : List Nat) (base : Nat) (t : PtrTree) (n : Nat)
    (h : getPtr s bs base = .ok (t, n)) : solid t = true :=
  getPtr_solid_all s true false hok (isUnit_of_okAux_false s true hok) bs base t n h

end Unsized.PtrT
