import Unsized.PtrHonestF
namespace Unsized.Ptr
open Common Unsized Unsized.Text Unsized.Machine Unsized.PtrT

theorem validFields_set' (fs : List Shape) (vs : List Val) (i : Nat) (w : Val) :
    (vs.set i w).take i = vs.take i := List.take_set_of_le (Nat.le_refl i)

theorem zst_nonlast (fs : List Shape) (i : Nat) (f : Shape) (hok : Shape.okFields fs = true)
    (hi : i + 1 < fs.length) (hf : fs[i]? = some f) : f.zst = false := by
  induction fs generalizing i with
  | nil => simp at hf
  | cons f' fs ih =>
    cases fs with
    | nil => simp at hi
    | cons g gs =>
      obtain ⟨_, h2, h3⟩ := okFields_cons2 f' g gs hok
      cases i with
      | zero => simp at hf; subst hf; exact h2
      | succ i => exact ih i h3 (by simpa using hi) (by simpa using hf)

/-- **One level of the broadcast.** The notification whose source lies inside the child `st` of `v`
(strictly: `B1 ≤ src < B1 + size`), the child's pointer going `child ↦ child'` and its size changing by
`±amt`: the siblings before keep their place (they read their own intact headers), the siblings after
shift with their caches, an enclosing `UnsizedListPtr` keeps its start and follows the new size. `usz` only
has to agree with the OLD canonical bytes on what lies before the source. -/
theorem step_notify (s : Shape) (v : Val) (st : Step) (t1 : Shape) (u1 w : Val) (g : Good s v)
    (g' : Good s (subst1 v st w)) (h1 : resolve1 s v st = .ok (t1, u1)) (neg : Bool) (amt : Nat)
    (hsw : size t1 w = applyDelta neg amt (size t1 u1)) (hnw : neg = true → amt ≤ size t1 u1)
    (pre : List Nat) (b : Nat) (hb : b = pre.length) (src : Nat)
    (hs1 : b + (stepPre s v st 0).length ≤ src) (hs2 : src ≤ b + (stepPre s v st 0).length + size t1 u1)
    (hs2' : t1.zst = false → src < b + (stepPre s v st 0).length + size t1 u1)
    (hlim : b + size s v + amt < Shape.usizeLim) (usz : Nat → Nat)
    (hag : ∀ a, b ≤ a → a + 4 ≤ src → usz a = rd32 (pre ++ encode s v) a)
    (R child child' : PtrTree) (hR : HonStep s v st b R child)
    (hc : resizeNotify usz src neg amt child = some child') :
    ∃ R', resizeNotify usz src neg amt R = some R' ∧ HonStep s (subst1 v st w) st b R' child' := by
  obtain ⟨hgeo, hel⟩ := step_geom s v st t1 u1 g h1
  have g1 := (step_facts s v st t1 u1 g h1).1
  have r1' := resolve1_subst1 s v st t1 u1 w h1
  have hgeo' := (step_geom s _ st t1 w g' r1').1
  have hsv : size s (subst1 v st w) = applyDelta neg amt (size s v) := by
    have e1 := stepPre_subst1_len s v st t1 u1 w g h1 0 0
    have e2 : (stepPost s (subst1 v st w) st).length = (stepPost s v st).length := by
      have a := step_subst_enc s v st t1 u1 w g h1
      have a' := (step_facts s _ st t1 w g' r1').2.1
      have a'' := (step_facts s _ st t1 w g' r1').2.2.1
      have l1 := congrArg List.length a
      have l2 := congrArg List.length a'
      simp only [List.length_append] at l1 l2
      rw [a'' (encode t1 w).length 0, e1] at l2
      have := (step_facts s v st t1 u1 g h1).2.2.1 (encode t1 w).length 0
      omega
    rw [hgeo', hgeo, e1, e2, hsw]
    cases neg with
    | false => simp only [applyDelta, Bool.false_eq_true, if_false]; omega
    | true => have := hnw rfl; simp only [applyDelta, if_true]; omega
  have h1' := h1
  unfold resolve1 at h1
  split at h1
  · -- struct
    rename_i sized fs sz vs i
    split at h1
    · rename_i f x hf hx
      cases h1
      have hif : i < fs.length := by
        rcases Nat.lt_or_ge i fs.length with h | h
        · exact h
        · simp [List.getElem?_eq_none h] at hf
      have hi : i < vs.length := by
        rcases Nat.lt_or_ge i vs.length with h | h
        · exact h
        · simp [List.getElem?_eq_none h] at hx
      obtain ⟨top, ie, hok⟩ := g.ok
      have hv := g.valid
      have hfit := g.fits
      simp only [Shape.okAux, Bool.and_eq_true] at hok
      simp only [valid, Bool.and_eq_true, beq_iff_eq, decide_eq_true_eq] at hv
      simp only [fits] at hfit
      have hl := validFields_length fs vs hv.2
      have hvt := validFields_take fs vs i hv.2
      have hvd := validFields_drop fs vs (i + 1) hv.2
      have hft := fitsFields_take fs vs i hfit
      have hsd := sizeFields_enc _ _ hvd
      have hpl := struct_pre_len sized fs sz vs i g
      have hpo : (stepPost (.struct sized fs) (.record sz vs) (.field i)).length
          = sizeFields (fs.drop (i + 1)) (vs.drop (i + 1)) := by simp only [stepPost, hsd]
      rw [hpl] at hs1 hs2 hs2' hgeo
      obtain ⟨hokt, hzt⟩ := okFields_take fs i hok.2 hif
      simp only [HonStep] at hR
      obtain ⟨ks, hks, rfl⟩ := hR
      obtain ⟨L, k0, Rr, rfl, hLlen, a1, a2, a3⟩ := honL_split fs vs i t1 u1 _ ks hf hx hks
      -- before
      have hL : notifyL usz src neg amt L = some L := by
        by_cases hi0 : i = 0
        · subst hi0; simp only [List.take_zero, HonL] at a1; subst a1; simp [notifyL]
        · have e1 : pre ++ encode (.struct sized fs) (.record sz vs)
              = (pre ++ sz) ++ encodeFields (fs.take i) (vs.take i)
                ++ (encode t1 u1 ++ encodeFields (fs.drop (i + 1)) (vs.drop (i + 1))) := by
            simp only [encode]; rw [encodeFields_split fs vs i t1 u1 hf hx]; simp [List.append_assoc]
          exact honL_before (fs.take i) (fun f _ => hon_before f) hokt (hzt hi0) _ hvt hft (pre ++ sz) _
            (b + Fixed.sizeList sized) (by simp [hb, hv.1.1.1]) src (by omega) usz
            (fun a h1 h2 => by rw [← e1]; exact hag a (by omega) (by omega)) neg amt L a1
      -- after
      have hAfter : ∃ Rr', notifyL usz src neg amt Rr = some Rr'
          ∧ HonL (fs.drop (i + 1)) (vs.drop (i + 1))
              (b + Fixed.sizeList sized + sizeFields (fs.take i) (vs.take i) + size t1 w) Rr' := by
        by_cases hlast : i + 1 < fs.length
        · have hzf := zst_nonlast fs i t1 hok.2 hlast hf
          have := hs2' hzf
          obtain ⟨Rr', hRr, hRr'⟩ := honL_after (fs.drop (i + 1)) (fun f _ => hon_after f) (vs.drop (i + 1)) _
            (b + size (.struct sized fs) (.record sz vs)) usz src neg amt Rr (by omega)
            (fun hn => by have := hnw hn; omega) (by omega) (fun _ => by omega) a3
          have eA : applyDelta neg amt (b + Fixed.sizeList sized + sizeFields (fs.take i) (vs.take i) + size t1 u1)
              = b + Fixed.sizeList sized + sizeFields (fs.take i) (vs.take i) + size t1 w := by
            rw [appD_add' neg amt _ (size t1 u1) hnw, hsw]
          rw [eA] at hRr'
          exact ⟨Rr', hRr, hRr'⟩
        · have hd : fs.drop (i + 1) = [] := List.drop_eq_nil_of_le (by omega)
          rw [hd] at a3 ⊢
          simp only [HonL] at a3; subst a3
          exact ⟨[], by simp [notifyL], by simp [HonL]⟩
      obtain ⟨Rr', hRr, hRr'⟩ := hAfter
      have hK : notifyL usz src neg amt ((L ++ k0 :: Rr).set i child) = some (L ++ child' :: Rr') := by
        rw [set_mid _ _ _ _ _ hLlen.symm]
        exact notifyL_append usz src neg amt _ _ _ _ hL (by simp only [notifyL, hc, hRr])
      have hx' : (vs.set i w)[i]? = some w := by simp [hi]
      have hks' : HonL fs (vs.set i w) (b + Fixed.sizeList sized) (L ++ treeOf t1 w _ :: Rr') :=
        honL_join fs (vs.set i w) i t1 w _ L _ Rr' hf hx' (by simp [hl])
          (by rw [List.take_set_of_le (Nat.le_refl i)]; exact a1) (hon_treeOf t1 w _)
          (by rw [List.take_set_of_le (Nat.le_refl i), List.drop_set_of_lt (by omega)]; exact hRr')
      have hsb : ¬ src < b := by omega
      simp only [subst1, HonStep]
      by_cases he : sized.isEmpty = true
      · refine ⟨.node (L ++ child' :: Rr'), by simp only [he, if_true, resizeNotify, hK], _, hks', ?_⟩
        simp only [he, if_true]; rw [set_mid _ _ _ _ _ hLlen.symm]
      · refine ⟨.node (.leaf .checked b :: (L ++ child' :: Rr')), by
          simp only [he, Bool.false_eq_true, if_false, resizeNotify, notifyL, hK, hsb], _, hks', ?_⟩
        simp only [he, Bool.false_eq_true, if_false]; rw [set_mid _ _ _ _ _ hLlen.symm]
    · cases h1
  · -- ulist
    rename_i e vs i
    split at h1
    · rename_i x hx
      cases h1
      have hpre := hel i rfl
      have hv := g.valid
      have hfit := g.fits
      simp only [valid] at hv
      simp only [fits, Bool.and_eq_true, decide_eq_true_eq] at hfit
      have hsizes := map_encode_length t1 vs hv
      have husz : usz b = (vs.map (size t1)).sum := by
        rw [hag b (Nat.le_refl _) (by omega), encode_ulist_uBytes, uBytes, ← hsizes]
        have e1 : pre ++ (uHdrOf (vs.map fun _ => []) ((vs.map (encode t1)).map List.length)
            ++ (vs.map (encode t1)).flatten)
            = pre ++ uHdrOf (vs.map fun _ => []) ((vs.map (encode t1)).map List.length)
              ++ ((vs.map (encode t1)).flatten) := by simp [List.append_assoc]
        rw [e1, rd32_uHdr_usz _ _ pre _ b hb (by rw [hsizes]; exact hfit.1.2)]
      have hsz0 : size (.ulist t1) (.useq vs) = 4 + 4 + vs.length * 4 + 4 + (vs.map (size t1)).sum := by
        simp only [size]
      simp only [HonStep] at hR
      obtain ⟨pmb, rfl⟩ := hR
      have hq1 : ¬ src < b := by omega
      have hq2 : src ≠ b := by omega
      have hzt : t1.zst = false := by
        obtain ⟨top, ie, hok⟩ := g.ok
        simp only [Shape.okAux, Bool.and_eq_true, Bool.not_eq_true'] at hok; exact hok.2
      have := hs2' hzt
      have hs3 : src < b + (8 + vs.length * 4 + 4 + (vs.map (size t1)).sum) := by omega
      simp only [subst1] at hsv ⊢
      refine ⟨_, by simp only [resizeNotify, hq1, hq2, hs3, husz, hc, if_true, if_false]; rfl, ?_⟩
      simp only [HonStep, List.length_set]
      refine ⟨pmb, ?_⟩
      rw [hsv, wrapOff_eq neg amt _ (fun hn => by have := hnw hn; omega) (fun _ => by omega),
        appD_add' neg amt b _ (fun hn => by have := hnw hn; omega)]
    · cases h1
  · -- umap
    rename_i kw e es i
    split at h1
    · rename_i kx hx
      cases h1
      have hpre := hel i rfl
      have hv := g.valid
      have hfit := g.fits
      simp only [valid, Bool.and_eq_true] at hv
      simp only [fits, Bool.and_eq_true, decide_eq_true_eq] at hfit
      have hvall : es.all (fun kv => valid t1 kv.2) = true := by
        rw [List.all_eq_true] at hv ⊢
        intro x hx'; have := hv.1 x hx'; simp only [Bool.and_eq_true] at this; exact this.2
      have hsizes := map_encode_length_kv t1 es hvall
      have husz : usz b = (es.map (fun kv => size t1 kv.2)).sum := by
        rw [hag b (Nat.le_refl _) (by omega), encode_umap_uBytes, uBytes, ← hsizes]
        have e1 : pre ++ (uHdrOf (es.map (·.1)) ((es.map fun kv => encode t1 kv.2).map List.length)
            ++ (es.map fun kv => encode t1 kv.2).flatten)
            = pre ++ uHdrOf (es.map (·.1)) ((es.map fun kv => encode t1 kv.2).map List.length)
              ++ ((es.map fun kv => encode t1 kv.2).flatten) := by simp [List.append_assoc]
        rw [e1, rd32_uHdr_usz _ _ pre _ b hb (by rw [hsizes]; exact hfit.1.2)]
      have hsz0 : size (.umap kw t1) (.umap es)
          = 4 + 4 + es.length * Shape.entryW kw + 4 + (es.map (fun kv => size t1 kv.2)).sum := by
        simp only [size]
      simp only [HonStep] at hR
      obtain ⟨pmb, rfl⟩ := hR
      have hq1 : ¬ src < b := by omega
      have hq2 : src ≠ b := by omega
      have hzt : t1.zst = false := by
        obtain ⟨top, ie, hok⟩ := g.ok
        simp only [Shape.okAux, Bool.and_eq_true, Bool.not_eq_true'] at hok; exact hok.2
      have := hs2' hzt
      have hs3 : src < b + (8 + es.length * Shape.entryW kw + 4 + (es.map (fun kv => size t1 kv.2)).sum) := by omega
      simp only [subst1, hx] at hsv ⊢
      refine ⟨_, by simp only [resizeNotify, notifyL, hq1, hq2, hs3, husz, hc, if_true, if_false]; rfl, ?_⟩
      simp only [HonStep, List.length_set]
      refine ⟨pmb, ?_⟩
      rw [hsv, wrapOff_eq neg amt _ (fun hn => by have := hnw hn; omega) (fun _ => by omega),
        appD_add' neg amt b _ (fun hn => by have := hnw hn; omega)]
    · cases h1
  · -- enum
    rename_i ds ps idx pl
    split at h1
    · cases h1
    · cases h1
    · cases h1
      simp only [HonStep] at hR
      subst hR
      have hsb : ¬ src < b := by omega
      exact ⟨_, by simp only [resizeNotify, notifyO, hc, hsb, if_false]; rfl, by simp only [subst1, HonStep]⟩
  · cases h1

end Unsized.Ptr
