import Unsized.MachineNodeStr
/-!
# Pure byte algebra of the `UnsizedList` mutations (no `Mem`, no paths)

Helper lemmas for `MachineNodeUlist`: tables (`tbl_append`, `offsets_append`), the two `memmove`s,
`adjustOffsets` on a serialized table (`adjustOffsets_tbl`), the per-item fill (`ulistFill_frame`).
-/
namespace Unsized.Machine
open Common Unsized Unsized.Text

theorem tbl_append (o1 o2 : List Nat) (k1 k2 : List (List Nat)) (h : o1.length = k1.length) :
    tbl (o1 ++ o2) (k1 ++ k2) = tbl o1 k1 ++ tbl o2 k2 := by
  induction o1 generalizing k1 with
  | nil =>
    cases k1 with
    | nil => simp
    | cons _ _ => simp at h
  | cons o os ih =>
    cases k1 with
    | nil => simp at h
    | cons k ks =>
      simp only [List.cons_append, tbl_cons, ih ks (by simpa using h), List.append_assoc]

theorem offsets_append (a b : List Nat) (acc : Nat) :
    offsets (a ++ b) acc = offsets a acc ++ offsets b (acc + a.sum) := by
  induction a generalizing acc with
  | nil => simp [offsets]
  | cons x xs ih => simp [offsets, ih, Nat.add_assoc]

theorem offsets_take (l : List Nat) (acc i : Nat) : (offsets l acc).take i = offsets (l.take i) acc := by
  have h := offsets_append (l.take i) (l.drop i) acc
  rw [List.take_append_drop] at h
  rw [h]
  by_cases hi : i ≤ l.length
  · exact List.take_left' (by simp [Nat.min_eq_left hi])
  · have hl : l.length ≤ i := by omega
    rw [List.drop_of_length_le hl]
    simp only [offsets, List.append_nil]
    exact List.take_of_length_le (by simp; omega)

theorem offsets_drop (l : List Nat) (acc i : Nat) (hi : i ≤ l.length) :
    (offsets l acc).drop i = offsets (l.drop i) (acc + (l.take i).sum) := by
  have h := offsets_append (l.take i) (l.drop i) acc
  rw [List.take_append_drop] at h
  rw [h]
  exact List.drop_left' (by simp [Nat.min_eq_left hi])

theorem applyDelta_zero (neg : Bool) (x : Nat) : applyDelta neg 0 x = x := by
  unfold applyDelta; cases neg <;> simp

theorem map_applyDelta_zero (neg : Bool) (l : List Nat) : l.map (applyDelta neg 0) = l := by
  induction l with
  | nil => rfl
  | cons x xs ih => simp [applyDelta_zero, ih]

/-- `adjust_offsets(start, ±amt)` when the serialized table part from entry `start` on is known. -/
theorem adjustOffsets_tbl (kw : Nat) (offs : List Nat) (keys : List (List Nat)) (pre post : List Nat)
    (base len start : Nat) (neg : Bool) (amt : Nat)
    (hp : pre.length = base + 8 + start * (4 + kw)) (hl : offs.length = keys.length)
    (hn : offs.length = len - start)
    (hk : ∀ k ∈ keys, k.length = kw) (ho : ∀ o ∈ offs, o < Shape.u32Lim)
    (hpos : neg = false → ∀ o ∈ offs, o + amt < Shape.u32Lim)
    (hneg : neg = true → ∀ o ∈ offs, amt ≤ o) :
    adjustOffsets (4 + kw) base len start neg amt (pre ++ tbl offs keys ++ post)
      = .ok (pre ++ tbl (offs.map (applyDelta neg amt)) keys ++ post) := by
  unfold adjustOffsets
  by_cases h0 : len = 0
  · have : offs = [] := List.eq_nil_of_length_eq_zero (by omega)
    subst this; simp [h0]
  · simp only [h0, if_false]
    by_cases h1 : amt = 0
    · subst h1; simp [map_applyDelta_zero]
    · simp only [h1, if_false]
      by_cases h2 : len ≤ start
      · have : offs = [] := List.eq_nil_of_length_eq_zero (by omega)
        subst this; simp [h2]
      · simp only [h2, if_false]
        have hpl : base + 8 + start * (4 + kw) = pre.length := hp.symm
        have hcnt : len - start = offs.length := hn.symm
        have hshift := shiftOffsets_tbl kw neg amt offs keys pre post (base + 8 + start * (4 + kw)) hpl hl hk ho
        cases neg with
        | true =>
          simp only [if_true]
          have hrd := rd32_tbl kw offs keys pre post (base + 8 + start * (4 + kw)) 0 hpl hl hk ho (by omega)
          simp only [Nat.zero_mul, Nat.add_zero] at hrd
          have := hneg rfl (offs[0]'(by omega)) (List.getElem_mem _)
          rw [hrd, if_neg (by omega), hcnt, hshift]
        | false =>
          simp only [Bool.false_eq_true, if_false]
          have hj : len - 1 - start < offs.length := by omega
          have hrd := rd32_tbl kw offs keys pre post (base + 8 + start * (4 + kw)) (len - 1 - start) hpl hl hk ho hj
          have hpos' : base + 8 + start * (4 + kw) + (len - 1 - start) * (4 + kw) = base + 8 + (len - 1) * (4 + kw) := by
            have : len - 1 = start + (len - 1 - start) := by omega
            conv => rhs; rw [this, Nat.add_mul]
            omega
          rw [hpos'] at hrd
          have := hpos rfl (offs[len - 1 - start]) (List.getElem_mem _)
          rw [hrd, if_neg (by omega), hcnt, hshift]

/-- `memmove` up by `d` of the part `R` (the gap `G` behind it is at least `d` long). -/
theorem memmove_up (Pp R G T : List Nat) (d dst src cnt : Nat) (hd : d ≤ G.length)
    (hsrc : src = Pp.length) (hdst : dst = Pp.length + d) (hcnt : cnt = R.length) :
    memmove (Pp ++ R ++ G ++ T) dst src cnt = Pp ++ (R ++ G).take d ++ R ++ G.drop d ++ T := by
  subst hsrc hdst hcnt
  unfold memmove
  have e1 : Pp ++ R ++ G ++ T = Pp ++ R ++ (G ++ T) := by simp [List.append_assoc]
  have hrd : rd (Pp ++ R ++ G ++ T) Pp.length R.length = R := by
    rw [e1]; exact rd_after Pp R _ _ _ rfl rfl
  rw [hrd]
  have e2 : Pp ++ R ++ G ++ T = Pp ++ (R ++ G) ++ T := by simp [List.append_assoc]
  rw [e2, wr_mid Pp (R ++ G) T _ d R rfl (by simp; omega)]
  have : wr (R ++ G) d R = (R ++ G).take d ++ R ++ G.drop d := by
    unfold wr
    congr 1
    rw [Nat.add_comm, List.drop_append, List.drop_of_length_le (by omega)]
    simp
  rw [this]; simp [List.append_assoc]

/-- `memmove` down: the part `R` behind `M` is copied over `M`. -/
theorem memmove_down (Pp M R T : List Nat) (dst src cnt : Nat)
    (hdst : dst = Pp.length) (hsrc : src = Pp.length + M.length) (hcnt : cnt = R.length) :
    memmove (Pp ++ M ++ R ++ T) dst src cnt = Pp ++ R ++ (M ++ R).drop R.length ++ T := by
  subst hsrc hdst hcnt
  unfold memmove
  have e1 : Pp ++ M ++ R ++ T = (Pp ++ M) ++ R ++ T := by simp [List.append_assoc]
  have hrd : rd (Pp ++ M ++ R ++ T) (Pp.length + M.length) R.length = R := by
    rw [e1]; exact rd_after (Pp ++ M) R _ _ _ (by simp) rfl
  rw [hrd]
  have e2 : Pp ++ M ++ R ++ T = Pp ++ (M ++ R) ++ T := by simp [List.append_assoc]
  rw [e2, wr_mid0 Pp (M ++ R) T _ R rfl (by simp)]
  have : wr (M ++ R) 0 R = R ++ (M ++ R).drop R.length := by
    unfold wr; simp
  rw [this]; simp [List.append_assoc]

/-- The per-item loop of `insert_all_with_offsets`: `n` offset entries into the table gap `J1`, `n`
element images into the data gap `J2`. -/
theorem ulistFill_frame (kw sz : Nat) (key img : List Nat) (hkey : key.length = kw) (himg : img.length = sz) :
    ∀ (n : Nat) (A J1 B J2 C : List Nat) (pos dpos off : Nat), pos = A.length → J1.length = n * (4 + kw) →
      dpos = A.length + J1.length + B.length → J2.length = n * sz →
      ulistFill (4 + kw) sz key img n pos dpos off (A ++ J1 ++ B ++ J2 ++ C)
        = A ++ tbl (offsets (List.replicate n sz) off) (List.replicate n key) ++ B
            ++ (List.replicate n img).flatten ++ C := by
  intro n
  induction n with
  | zero =>
    intro A J1 B J2 C pos dpos off _ h1 _ h2
    have e1 : J1 = [] := List.eq_nil_of_length_eq_zero (by omega)
    have e2 : J2 = [] := List.eq_nil_of_length_eq_zero (by omega)
    subst e1 e2
    simp [ulistFill, offsets]
  | succ n ih =>
    intro A J1 B J2 C pos dpos off hpos h1 hdpos h2
    have hJ1 : J1 = J1.take (4 + kw) ++ J1.drop (4 + kw) := (List.take_append_drop _ _).symm
    have hJ2 : J2 = J2.take sz ++ J2.drop sz := (List.take_append_drop _ _).symm
    have hmul1 : (n + 1) * (4 + kw) = n * (4 + kw) + (4 + kw) := Nat.succ_mul _ _
    have hmul2 : (n + 1) * sz = n * sz + sz := Nat.succ_mul _ _
    have hJ1a : (J1.take (4 + kw)).length = 4 + kw := by rw [List.length_take]; omega
    have hJ1b : (J1.drop (4 + kw)).length = n * (4 + kw) := by rw [List.length_drop]; omega
    have hJ2a : (J2.take sz).length = sz := by rw [List.length_take]; omega
    have hJ2b : (J2.drop sz).length = n * sz := by rw [List.length_drop]; omega
    obtain ⟨J1a, hJ1a'⟩ : ∃ x, x = J1.take (4 + kw) := ⟨_, rfl⟩
    obtain ⟨J1b, hJ1b'⟩ : ∃ x, x = J1.drop (4 + kw) := ⟨_, rfl⟩
    obtain ⟨J2a, hJ2a'⟩ : ∃ x, x = J2.take sz := ⟨_, rfl⟩
    obtain ⟨J2b, hJ2b'⟩ : ∃ x, x = J2.drop sz := ⟨_, rfl⟩
    rw [← hJ1a'] at hJ1 hJ1a; rw [← hJ1b'] at hJ1 hJ1b
    rw [← hJ2a'] at hJ2 hJ2a; rw [← hJ2b'] at hJ2 hJ2b
    subst hJ1 hJ2
    simp only [ulistFill]
    -- the image
    have e1 : A ++ (J1a ++ J1b) ++ B ++ (J2a ++ J2b) ++ C = (A ++ (J1a ++ J1b) ++ B) ++ J2a ++ (J2b ++ C) := by
      simp [List.append_assoc]
    rw [e1, wr_after _ J2a img _ dpos (by simp [hdpos]; omega) (by rw [hJ2a, himg])]
    -- the entry
    have e2 : (A ++ (J1a ++ J1b) ++ B) ++ img ++ (J2b ++ C) = A ++ J1a ++ (J1b ++ B ++ img ++ J2b ++ C) := by
      simp [List.append_assoc]
    rw [e2, wr_after A J1a (leN 4 off ++ key) _ pos hpos (by simp [hJ1a, hkey])]
    have e3 : A ++ (leN 4 off ++ key) ++ (J1b ++ B ++ img ++ J2b ++ C)
        = (A ++ (leN 4 off ++ key)) ++ J1b ++ (B ++ img) ++ J2b ++ C := by
      simp [List.append_assoc]
    rw [e3, ih (A ++ (leN 4 off ++ key)) J1b (B ++ img) J2b C (pos + (4 + kw)) (dpos + sz) (off + sz)
      (by simp [hpos, hkey]) hJ1b
      (by simp only [List.length_append, leN_length, hkey, himg, hJ1b] at hdpos ⊢; rw [hJ1a] at hdpos; omega) hJ2b]
    simp [List.replicate_succ, offsets, List.append_assoc]

end Unsized.Machine

namespace Unsized.Machine
open Common Unsized Unsized.Text

/-! ## `insert_all_with_offsets` after the resize and the `memmove` -/

/-- The part of `ulistInsert` behind the `memmove` (pure function of the bytes). -/
def uInsTail (cw b idx n sz len off : Nat) (key img : List Nat) (bs1 : List Nat) : Except Err (List Nat) :=
  let newLen := len + n
  let bs2 := wr32 bs1 (b + 4) newLen
  let bs3 := wr32 bs2 (b + 8 + newLen * cw) newLen
  let bs4 := wr32 bs3 b (rd32 bs3 b + n * sz)
  match adjustOffsets cw b newLen (idx + n) false (n * sz) bs4 with
  | .error er => .error er
  | .ok bs5 => .ok (ulistFill cw sz key img n (b + 8 + idx * cw) (b + 8 + newLen * cw + 4 + off) off bs5)

theorem uInsTail_generic (kw : Nat) (A T1 J1 : List Nat) (o2 : List Nat) (k2 : List (List Nat))
    (D1 J2 D2 C : List Nat) (b idx n sz L S off : Nat) (key img : List Nat)
    (hb : b = A.length) (hT1 : T1.length = idx * (4 + kw)) (hJ1 : J1.length = n * (4 + kw))
    (ho2 : o2.length = k2.length) (hL : o2.length = L - idx) (hidx : idx ≤ L)
    (hk2 : ∀ k ∈ k2, k.length = kw) (hD1 : D1.length = off) (hJ2 : J2.length = n * sz)
    (hkey : key.length = kw) (himg : img.length = sz)
    (hS : S + n * sz < Shape.u32Lim) (ho2b : ∀ o ∈ o2, o ≤ S) :
    uInsTail (4 + kw) b idx n sz L off key img
        (A ++ leN 4 S ++ leN 4 L ++ T1 ++ J1 ++ tbl o2 k2 ++ leN 4 L ++ D1 ++ J2 ++ D2 ++ C)
      = .ok (A ++ leN 4 (S + n * sz) ++ leN 4 (L + n) ++ T1
          ++ tbl (offsets (List.replicate n sz) off) (List.replicate n key)
          ++ tbl (o2.map (applyDelta false (n * sz))) k2 ++ leN 4 (L + n) ++ D1
          ++ (List.replicate n img).flatten ++ D2 ++ C) := by
  have hT2len : (tbl o2 k2).length = (L - idx) * (4 + kw) := by
    rw [tbl_length kw o2 k2 ho2 hk2, hL]
  have hLmul : (L + n) * (4 + kw) = idx * (4 + kw) + n * (4 + kw) + (L - idx) * (4 + kw) := by
    rw [← Nat.add_mul, ← Nat.add_mul]; congr 1; omega
  unfold uInsTail
  simp only []
  -- len
  have h2 : wr32 (A ++ leN 4 S ++ leN 4 L ++ T1 ++ J1 ++ tbl o2 k2 ++ leN 4 L ++ D1 ++ J2 ++ D2 ++ C) (b + 4) (L + n)
      = A ++ leN 4 S ++ leN 4 (L + n) ++ T1 ++ J1 ++ tbl o2 k2 ++ leN 4 L ++ D1 ++ J2 ++ D2 ++ C := by
    have e : A ++ leN 4 S ++ leN 4 L ++ T1 ++ J1 ++ tbl o2 k2 ++ leN 4 L ++ D1 ++ J2 ++ D2 ++ C
        = (A ++ leN 4 S) ++ leN 4 L ++ (T1 ++ J1 ++ tbl o2 k2 ++ leN 4 L ++ D1 ++ J2 ++ D2 ++ C) := by
      simp only [List.append_assoc]
    rw [e, wr32_at _ _ _ _ _ (by simp [hb])]; simp only [List.append_assoc]
  rw [h2]
  -- len copy
  have h3 : wr32 (A ++ leN 4 S ++ leN 4 (L + n) ++ T1 ++ J1 ++ tbl o2 k2 ++ leN 4 L ++ D1 ++ J2 ++ D2 ++ C)
        (b + 8 + (L + n) * (4 + kw)) (L + n)
      = A ++ leN 4 S ++ leN 4 (L + n) ++ T1 ++ J1 ++ tbl o2 k2 ++ leN 4 (L + n) ++ D1 ++ J2 ++ D2 ++ C := by
    have e : A ++ leN 4 S ++ leN 4 (L + n) ++ T1 ++ J1 ++ tbl o2 k2 ++ leN 4 L ++ D1 ++ J2 ++ D2 ++ C
        = (A ++ leN 4 S ++ leN 4 (L + n) ++ T1 ++ J1 ++ tbl o2 k2) ++ leN 4 L ++ (D1 ++ J2 ++ D2 ++ C) := by
      simp only [List.append_assoc]
    rw [e, wr32_at _ _ _ _ _ (by simp only [List.length_append, leN_length, hT1, hJ1, hT2len, hb]; omega)]
    simp only [List.append_assoc]
  rw [h3]
  -- unsized_size
  have e4 : A ++ leN 4 S ++ leN 4 (L + n) ++ T1 ++ J1 ++ tbl o2 k2 ++ leN 4 (L + n) ++ D1 ++ J2 ++ D2 ++ C
      = A ++ leN 4 S ++ (leN 4 (L + n) ++ T1 ++ J1 ++ tbl o2 k2 ++ leN 4 (L + n) ++ D1 ++ J2 ++ D2 ++ C) := by
    simp only [List.append_assoc]
  have h4r : rd32 (A ++ leN 4 S ++ leN 4 (L + n) ++ T1 ++ J1 ++ tbl o2 k2 ++ leN 4 (L + n) ++ D1 ++ J2 ++ D2 ++ C) b = S := by
    rw [e4]; exact rd32_at A _ b S hb (by omega)
  rw [h4r]
  have h4 : wr32 (A ++ leN 4 S ++ leN 4 (L + n) ++ T1 ++ J1 ++ tbl o2 k2 ++ leN 4 (L + n) ++ D1 ++ J2 ++ D2 ++ C) b (S + n * sz)
      = (A ++ leN 4 (S + n * sz) ++ leN 4 (L + n) ++ T1 ++ J1) ++ tbl o2 k2 ++ (leN 4 (L + n) ++ D1 ++ J2 ++ D2 ++ C) := by
    rw [e4, wr32_at A _ b S _ hb]; simp only [List.append_assoc]
  rw [h4]
  -- adjust_offsets
  have h5 := adjustOffsets_tbl kw o2 k2 (A ++ leN 4 (S + n * sz) ++ leN 4 (L + n) ++ T1 ++ J1)
    (leN 4 (L + n) ++ D1 ++ J2 ++ D2 ++ C) b (L + n) (idx + n) false (n * sz)
    (by simp only [List.length_append, leN_length, hT1, hJ1, hb]; rw [Nat.add_mul]; omega) ho2 (by omega) hk2
    (fun o ho => by have := ho2b o ho; omega) (fun _ o ho => by have := ho2b o ho; omega) (by intro h; cases h)
  rw [h5]
  simp only []
  -- the items
  have e6 : A ++ leN 4 (S + n * sz) ++ leN 4 (L + n) ++ T1 ++ J1 ++ tbl (o2.map (applyDelta false (n * sz))) k2
        ++ (leN 4 (L + n) ++ D1 ++ J2 ++ D2 ++ C)
      = (A ++ leN 4 (S + n * sz) ++ leN 4 (L + n) ++ T1) ++ J1
        ++ (tbl (o2.map (applyDelta false (n * sz))) k2 ++ leN 4 (L + n) ++ D1) ++ J2 ++ (D2 ++ C) := by
    simp only [List.append_assoc]
  have hT2len' : (tbl (o2.map (applyDelta false (n * sz))) k2).length = (L - idx) * (4 + kw) := by
    rw [tbl_length kw _ k2 (by simpa using ho2) hk2, List.length_map, hL]
  rw [e6, ulistFill_frame kw sz key img hkey himg n _ J1 _ J2 (D2 ++ C) _ _ off
    (by simp only [List.length_append, leN_length, hT1, hb]; try omega) hJ1
    (by simp only [List.length_append, leN_length, hT1, hJ1, hT2len', hD1, hb]; omega) hJ2]
  simp only [List.append_assoc]

end Unsized.Machine

namespace Unsized.Machine
open Common Unsized Unsized.Text

theorem sum_replicate' (n x : Nat) : (List.replicate n x).sum = n * x := by
  induction n with
  | zero => simp
  | succ n ih => simp [List.replicate_succ, ih, Nat.succ_mul]; omega

/-- The serialized list after inserting `n` copies of `img` (entry payload `key`) at `idx`. -/
theorem uBytes_insert (keys : List (List Nat)) (datas : List (List Nat)) (hl : keys.length = datas.length)
    (idx n : Nat) (hidx : idx ≤ datas.length) (key img : List Nat) :
    leN 4 ((datas.map List.length).sum + n * img.length) ++ leN 4 (datas.length + n)
        ++ tbl ((offsets (datas.map List.length) 0).take idx) (keys.take idx)
        ++ tbl (offsets (List.replicate n img.length) ((datas.map List.length).take idx).sum) (List.replicate n key)
        ++ tbl (((offsets (datas.map List.length) 0).drop idx).map (applyDelta false (n * img.length))) (keys.drop idx)
        ++ leN 4 (datas.length + n) ++ (datas.take idx).flatten ++ (List.replicate n img).flatten
        ++ (datas.drop idx).flatten
      = uBytes (Spec.insertAt keys idx (List.replicate n key)) (Spec.insertAt datas idx (List.replicate n img)) := by
  obtain ⟨sizes, hsizes⟩ : ∃ x, x = datas.map List.length := ⟨_, rfl⟩
  have hsl : sizes.length = datas.length := by simp [hsizes]
  have hmap : (Spec.insertAt datas idx (List.replicate n img)).map List.length
      = sizes.take idx ++ List.replicate n img.length ++ sizes.drop idx := by
    simp [Spec.insertAt, hsizes, List.map_take, List.map_drop]
  have hsum : (sizes.take idx ++ List.replicate n img.length ++ sizes.drop idx).sum = sizes.sum + n * img.length := by
    have := congrArg List.sum (List.take_append_drop idx sizes)
    simp only [List.sum_append] at this ⊢
    rw [sum_replicate']; omega
  have hoffs : offsets (sizes.take idx ++ List.replicate n img.length ++ sizes.drop idx) 0
      = (offsets sizes 0).take idx ++ offsets (List.replicate n img.length) (sizes.take idx).sum
        ++ ((offsets sizes 0).drop idx).map (applyDelta false (n * img.length)) := by
    rw [offsets_append, offsets_append, offsets_take, offsets_drop sizes 0 idx (by omega)]
    simp only [Nat.zero_add, List.sum_append, sum_replicate']
    have := offsets_shift (sizes.drop idx) false (n * img.length) (sizes.take idx).sum (by intro h; cases h)
    simp only [applyDelta, Bool.false_eq_true, if_false] at this
    rw [this]
  rw [← hsizes]
  simp only [uBytes, uHdrOf, hmap, hsum, hoffs, List.length_append, List.length_replicate, List.length_take,
    List.length_drop, hsl]
  have hmin : min idx datas.length + n + (datas.length - idx) = datas.length + n := by omega
  rw [hmin]
  have htbl : tbl ((offsets sizes 0).take idx ++ offsets (List.replicate n img.length) (sizes.take idx).sum
        ++ ((offsets sizes 0).drop idx).map (applyDelta false (n * img.length)))
        (Spec.insertAt keys idx (List.replicate n key))
      = tbl ((offsets sizes 0).take idx) (keys.take idx)
        ++ tbl (offsets (List.replicate n img.length) (sizes.take idx).sum) (List.replicate n key)
        ++ tbl (((offsets sizes 0).drop idx).map (applyDelta false (n * img.length))) (keys.drop idx) := by
    simp only [Spec.insertAt]
    rw [tbl_append _ _ _ _ (by simp; omega), tbl_append _ _ _ _ (by simp; omega)]
  rw [htbl]
  simp [Spec.insertAt, List.append_assoc]

end Unsized.Machine

namespace Unsized.Machine
open Common Unsized Unsized.Text

/-- `ulistInsert` = validation, resize, `memmove`, then `uInsTail` (for an infallible initialiser). -/
theorem ulistInsert_of_tail (c : Ctx) (cw : Nat) (e : Shape) (b idx n : Nat) (init : Init) (key : List Nat)
    (m m1 : Mem) (R : List Nat)
    (hidx : ¬ rd32 m.bytes (b + 4) < idx)
    (hadd : m.addBytesN c b (b + 8 + rd32 m.bytes (b + 4) * cw + 4 + ulistOffset cw b idx m.bytes)
        ((initSize e init + cw) * n) = (m1, .ok ()))
    (hlim : ¬ Shape.u32Lim ≤ rd32 m.bytes (b + 4) + n) (hf : initFails e init = false)
    (htail : uInsTail cw b idx n (initSize e init) (rd32 m.bytes (b + 4)) (ulistOffset cw b idx m.bytes) key
        (initBytes e init)
        (memmove m1.bytes (b + 8 + idx * cw + n * cw) (b + 8 + idx * cw)
          (b + 8 + rd32 m.bytes (b + 4) * cw + 4 + ulistOffset cw b idx m.bytes - (b + 8 + idx * cw))) = .ok R) :
    ulistInsert c cw e b idx n init key m = ({ m1 with bytes := R }, .ok ()) := by
  unfold ulistInsert
  simp only [hidx, if_false, hadd, hlim]
  unfold uInsTail at htail
  simp only [] at htail
  split at htail
  · cases htail
  · rename_i bs5 heq
    rw [heq]
    simp only [hf, Bool.false_eq_true, if_false]
    cases htail
    by_cases hn : n = 0
    · subst hn; simp [ulistFill]
    · simp only [hn, if_false]

end Unsized.Machine

namespace Unsized.Machine
open Common Unsized Unsized.Text

/-! ## `remove_range` behind the `memmove` and the resize; `clear` -/

/-- The part of `ulistRemoveRange` behind `remove_bytes` (pure function of the bytes). -/
def uRemTail (cw b lo n len removed : Nat) (bs : List Nat) : Except Err (List Nat) :=
  let newLen := len - n
  let bs2 := wr32 bs (b + 4) newLen
  let bs3 := wr32 bs2 (b + 8 + newLen * cw) newLen
  let bs4 := wr32 bs3 b (rd32 bs3 b - removed)
  adjustOffsets cw b newLen lo true removed bs4

theorem uRemTail_generic (kw : Nat) (A T1 : List Nat) (o2 : List Nat) (k2 : List (List Nat))
    (D1 T C : List Nat) (b lo n L S removed : Nat)
    (hb : b = A.length) (hT1 : T1.length = lo * (4 + kw))
    (ho2 : o2.length = k2.length) (hL : o2.length = L - n - lo) (hlo : lo ≤ L - n)
    (hk2 : ∀ k ∈ k2, k.length = kw) (hS : S < Shape.u32Lim)
    (ho2b : ∀ o ∈ o2, removed ≤ o ∧ o < Shape.u32Lim) :
    uRemTail (4 + kw) b lo n L removed
        (A ++ leN 4 S ++ leN 4 L ++ T1 ++ tbl o2 k2 ++ leN 4 L ++ D1 ++ T ++ C)
      = .ok (A ++ leN 4 (S - removed) ++ leN 4 (L - n) ++ T1
          ++ tbl (o2.map (applyDelta true removed)) k2 ++ leN 4 (L - n) ++ D1 ++ T ++ C) := by
  have hT2len : (tbl o2 k2).length = (L - n - lo) * (4 + kw) := by
    rw [tbl_length kw o2 k2 ho2 hk2, hL]
  unfold uRemTail
  simp only []
  have h2 : wr32 (A ++ leN 4 S ++ leN 4 L ++ T1 ++ tbl o2 k2 ++ leN 4 L ++ D1 ++ T ++ C) (b + 4) (L - n)
      = A ++ leN 4 S ++ leN 4 (L - n) ++ T1 ++ tbl o2 k2 ++ leN 4 L ++ D1 ++ T ++ C := by
    have e : A ++ leN 4 S ++ leN 4 L ++ T1 ++ tbl o2 k2 ++ leN 4 L ++ D1 ++ T ++ C
        = (A ++ leN 4 S) ++ leN 4 L ++ (T1 ++ tbl o2 k2 ++ leN 4 L ++ D1 ++ T ++ C) := by
      simp only [List.append_assoc]
    rw [e, wr32_at _ _ _ _ _ (by simp [hb])]; simp only [List.append_assoc]
  rw [h2]
  · have hmul : (L - n) * (4 + kw) = lo * (4 + kw) + (L - n - lo) * (4 + kw) := by
      rw [← Nat.add_mul]; congr 1; omega
    have h3 : wr32 (A ++ leN 4 S ++ leN 4 (L - n) ++ T1 ++ tbl o2 k2 ++ leN 4 L ++ D1 ++ T ++ C)
          (b + 8 + (L - n) * (4 + kw)) (L - n)
        = A ++ leN 4 S ++ leN 4 (L - n) ++ T1 ++ tbl o2 k2 ++ leN 4 (L - n) ++ D1 ++ T ++ C := by
      have e : A ++ leN 4 S ++ leN 4 (L - n) ++ T1 ++ tbl o2 k2 ++ leN 4 L ++ D1 ++ T ++ C
          = (A ++ leN 4 S ++ leN 4 (L - n) ++ T1 ++ tbl o2 k2) ++ leN 4 L ++ (D1 ++ T ++ C) := by
        simp only [List.append_assoc]
      rw [e, wr32_at _ _ _ _ _ (by simp only [List.length_append, leN_length, hT1, hT2len, hb]; omega)]
      simp only [List.append_assoc]
    rw [h3]
    have e4 : A ++ leN 4 S ++ leN 4 (L - n) ++ T1 ++ tbl o2 k2 ++ leN 4 (L - n) ++ D1 ++ T ++ C
        = A ++ leN 4 S ++ (leN 4 (L - n) ++ T1 ++ tbl o2 k2 ++ leN 4 (L - n) ++ D1 ++ T ++ C) := by
      simp only [List.append_assoc]
    have h4r : rd32 (A ++ leN 4 S ++ leN 4 (L - n) ++ T1 ++ tbl o2 k2 ++ leN 4 (L - n) ++ D1 ++ T ++ C) b = S := by
      rw [e4]; exact rd32_at A _ b S hb hS
    rw [h4r]
    have h4 : wr32 (A ++ leN 4 S ++ leN 4 (L - n) ++ T1 ++ tbl o2 k2 ++ leN 4 (L - n) ++ D1 ++ T ++ C) b (S - removed)
        = (A ++ leN 4 (S - removed) ++ leN 4 (L - n) ++ T1) ++ tbl o2 k2 ++ (leN 4 (L - n) ++ D1 ++ T ++ C) := by
      rw [e4, wr32_at A _ b S _ hb]; simp only [List.append_assoc]
    rw [h4]
    have h5 := adjustOffsets_tbl kw o2 k2 (A ++ leN 4 (S - removed) ++ leN 4 (L - n) ++ T1)
      (leN 4 (L - n) ++ D1 ++ T ++ C) b (L - n) lo true removed
      (by simp only [List.length_append, leN_length, hT1, hb]; try omega) ho2 hL hk2
      (fun o ho => (ho2b o ho).2) (by intro h; cases h) (fun _ o ho => (ho2b o ho).1)
    rw [h5]
    simp only [List.append_assoc]

end Unsized.Machine

namespace Unsized.Machine
open Common Unsized Unsized.Text

theorem sum_take_mono (l : List Nat) (i j : Nat) (h : i ≤ j) : (l.take i).sum ≤ (l.take j).sum := by
  have : l.take i = (l.take j).take i := by rw [List.take_take, Nat.min_eq_left h]
  rw [this]; exact sum_take_le _ _

theorem sum_take_add_drop (l : List Nat) (i : Nat) : (l.take i).sum + (l.drop i).sum = l.sum := by
  have := congrArg List.sum (List.take_append_drop i l)
  rw [List.sum_append] at this; exact this

/-- The serialized list after removing the elements `lo..hi`. -/
theorem uBytes_remove (keys : List (List Nat)) (datas : List (List Nat)) (hl : keys.length = datas.length)
    (lo hi : Nat) (hlo : lo ≤ hi) (hhi : hi ≤ datas.length) :
    leN 4 ((datas.map List.length).sum - (((datas.map List.length).take hi).sum - ((datas.map List.length).take lo).sum))
        ++ leN 4 (datas.length - (hi - lo))
        ++ tbl ((offsets (datas.map List.length) 0).take lo) (keys.take lo)
        ++ tbl (((offsets (datas.map List.length) 0).drop hi).map
            (applyDelta true (((datas.map List.length).take hi).sum - ((datas.map List.length).take lo).sum))) (keys.drop hi)
        ++ leN 4 (datas.length - (hi - lo)) ++ (datas.take lo).flatten ++ (datas.drop hi).flatten
      = uBytes (Spec.removeRange keys lo hi) (Spec.removeRange datas lo hi) := by
  obtain ⟨sizes, hsizes⟩ : ∃ x, x = datas.map List.length := ⟨_, rfl⟩
  have hsl : sizes.length = datas.length := by simp [hsizes]
  have hmap : (Spec.removeRange datas lo hi).map List.length = sizes.take lo ++ sizes.drop hi := by
    simp [Spec.removeRange, hsizes, List.map_take, List.map_drop]
  have hmono := sum_take_mono sizes lo hi hlo
  have hsplit := sum_take_add_drop sizes hi
  have hsum : (sizes.take lo ++ sizes.drop hi).sum = sizes.sum - ((sizes.take hi).sum - (sizes.take lo).sum) := by
    simp only [List.sum_append]; omega
  have hoffs : offsets (sizes.take lo ++ sizes.drop hi) 0
      = (offsets sizes 0).take lo
        ++ ((offsets sizes 0).drop hi).map (applyDelta true ((sizes.take hi).sum - (sizes.take lo).sum)) := by
    rw [offsets_append, offsets_take, offsets_drop sizes 0 hi (by omega)]
    simp only [Nat.zero_add]
    have := offsets_shift (sizes.drop hi) true ((sizes.take hi).sum - (sizes.take lo).sum) (sizes.take hi).sum
      (by intro _; omega)
    rw [← this]
    congr 2
    simp only [applyDelta, if_true]; omega
  rw [← hsizes]
  simp only [uBytes, uHdrOf, hmap, hsum, hoffs, List.length_append, List.length_take, List.length_drop, hsl]
  have hmin : min lo datas.length + (datas.length - hi) = datas.length - (hi - lo) := by omega
  rw [hmin]
  have htbl : tbl ((offsets sizes 0).take lo
        ++ ((offsets sizes 0).drop hi).map (applyDelta true ((sizes.take hi).sum - (sizes.take lo).sum)))
        (Spec.removeRange keys lo hi)
      = tbl ((offsets sizes 0).take lo) (keys.take lo)
        ++ tbl (((offsets sizes 0).drop hi).map (applyDelta true ((sizes.take hi).sum - (sizes.take lo).sum)))
            (keys.drop hi) := by
    simp only [Spec.removeRange]
    rw [tbl_append _ _ _ _ (by simp; omega)]
  rw [htbl]
  simp [Spec.removeRange, List.append_assoc]

/-- `ulistRemoveRange` (not the `clear` shortcut) = validation, `memmove`, resize, then `uRemTail`. -/
theorem ulistRemoveRange_of_tail (c : Ctx) (cw b lo hi : Nat) (m m1 : Mem) (R bs1 : List Nat)
    (hnc : ¬ (lo = 0 ∧ hi = rd32 m.bytes (b + 4))) (h1 : ¬ hi < lo) (h2 : ¬ rd32 m.bytes (b + 4) < hi)
    (hbs1 : bs1 = memmove m.bytes (b + 8 + lo * cw) (b + 8 + hi * cw)
          (b + 8 + rd32 m.bytes (b + 4) * cw + 4 + ulistOffset cw b lo m.bytes - (b + 8 + hi * cw)))
    (hrem : ({ m with bytes := bs1 } : Mem).removeBytesN c b
        (b + 8 + rd32 m.bytes (b + 4) * cw + 4 + ulistOffset cw b lo m.bytes - cw * (hi - lo))
        (b + 8 + rd32 m.bytes (b + 4) * cw + 4 + ulistOffset cw b hi m.bytes) = (m1, .ok ()))
    (htail : uRemTail cw b lo (hi - lo) (rd32 m.bytes (b + 4))
        (ulistOffset cw b hi m.bytes - ulistOffset cw b lo m.bytes) m1.bytes = .ok R) :
    ulistRemoveRange c cw b lo hi m = ({ m1 with bytes := R }, .ok ()) := by
  subst hbs1
  unfold ulistRemoveRange
  simp only [hnc, h1, h2, if_false, hrem]
  unfold uRemTail at htail
  simp only [] at htail
  rw [htail]

/-- `clear`: the three header stores on the 12 bytes that are left. -/
theorem uClear_bytes (A X C : List Nat) (b : Nat) (hb : b = A.length) (hX : X.length = 12) :
    wr32 (wr32 (wr32 (A ++ X ++ C) (b + 4) 0) (b + 8) 0) b 0 = A ++ uBytes [] [] ++ C := by
  obtain ⟨x1, hx1⟩ : ∃ x, x = X.take 4 := ⟨_, rfl⟩
  obtain ⟨x2, hx2⟩ : ∃ x, x = (X.drop 4).take 4 := ⟨_, rfl⟩
  obtain ⟨x3, hx3⟩ : ∃ x, x = (X.drop 4).drop 4 := ⟨_, rfl⟩
  have hXs : X = x1 ++ x2 ++ x3 := by
    rw [hx1, hx2, hx3, List.append_assoc, List.take_append_drop, List.take_append_drop]
  have l1 : x1.length = 4 := by rw [hx1, List.length_take]; omega
  have l2 : x2.length = 4 := by rw [hx2, List.length_take, List.length_drop]; omega
  have l3 : x3.length = 4 := by rw [hx3, List.length_drop, List.length_drop]; omega
  subst hXs
  unfold wr32
  have e1 : A ++ (x1 ++ x2 ++ x3) ++ C = (A ++ x1) ++ x2 ++ (x3 ++ C) := by simp only [List.append_assoc]
  rw [e1, wr_after _ x2 _ _ _ (by simp [hb, l1]) (by simp [l2])]
  have e2 : (A ++ x1) ++ leN 4 0 ++ (x3 ++ C) = (A ++ x1 ++ leN 4 0) ++ x3 ++ C := by simp only [List.append_assoc]
  rw [e2, wr_after _ x3 _ _ _ (by simp [hb, l1]) (by simp [l3])]
  have e3 : (A ++ x1 ++ leN 4 0) ++ leN 4 0 ++ C = A ++ x1 ++ (leN 4 0 ++ leN 4 0 ++ C) := by
    simp only [List.append_assoc]
  rw [e3, wr_after A x1 _ _ _ hb (by simp [l1])]
  simp [uBytes, uHdrOf, offsets, List.append_assoc]

end Unsized.Machine
