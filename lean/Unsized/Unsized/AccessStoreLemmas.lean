import Unsized.AccessStore
import Unsized.AccessLemmas
/-!
# The store-tracing layer is the traced layer plus stores: `proj (fS …) = fT …`

(hence, with `AccessLemmas.lean`, the same machine result as `MachineOps.lean`, and exactly the raw events
of `Access.lean`).
-/
namespace Unsized.Machine
open Common Unsized Unsized.Text

@[simp] theorem rawOf_nil : rawOf [] = [] := rfl
@[simp] theorem rawOf_raw (e : Ev) (es : List EvS) : rawOf (.raw e :: es) = e :: rawOf es := rfl
@[simp] theorem rawOf_store (o : Nat) (v : List Nat) (es : List EvS) : rawOf (.store o v :: es) = rawOf es := rfl

@[simp] theorem rawOf_append (a b : List EvS) : rawOf (a ++ b) = rawOf a ++ rawOf b := by
  induction a with
  | nil => rfl
  | cons e es ih => cases e <;> simp [ih]

@[simp] theorem rawOf_lift (evs : List Ev) : rawOf (liftEvs evs) = evs := by
  induction evs with
  | nil => rfl
  | cons e es ih => simp only [liftEvs, List.map_cons, rawOf_raw] at ih ⊢; rw [ih]

/-- Events that are stores only. -/
def storesOnly : List EvS → Bool
  | [] => true
  | .store _ _ :: es => storesOnly es
  | .raw _ :: _ => false

theorem rawOf_storesOnly (evs : List EvS) (h : storesOnly evs = true) : rawOf evs = [] := by
  induction evs with
  | nil => rfl
  | cons e es ih => cases e with
    | raw e => simp [storesOnly] at h
    | store o v => simp only [storesOnly] at h; simp [ih h]

theorem storesOnly_append (a b : List EvS) : storesOnly (a ++ b) = (storesOnly a && storesOnly b) := by
  induction a with
  | nil => simp [storesOnly]
  | cons e es ih => cases e <;> simp [storesOnly, ih]

/-! ## `resize_notification` -/

theorem shiftOffsetsS_spec (cw : Nat) (neg : Bool) (amt : Nat) : ∀ (n pos : Nat) (bs : List Nat),
    (shiftOffsetsS cw neg amt pos n bs).1 = shiftOffsets cw neg amt pos n bs ∧
    storesOnly (shiftOffsetsS cw neg amt pos n bs).2 = true := by
  intro n
  induction n with
  | zero => intro pos bs; exact ⟨rfl, rfl⟩
  | succ n ih =>
    intro pos bs
    simp only [shiftOffsetsS, shiftOffsets]
    have := ih (pos + cw) (wr bs pos (leN 4 (applyDelta neg amt (rd32 bs pos))))
    exact ⟨this.1, by simp only [storesOnly]; exact this.2⟩

theorem adjustOffsetsS_spec (cw base len start : Nat) (neg : Bool) (amt : Nat) (bs : List Nat) :
    (adjustOffsetsS cw base len start neg amt bs).1 = adjustOffsets cw base len start neg amt bs ∧
    storesOnly (adjustOffsetsS cw base len start neg amt bs).2 = true := by
  unfold adjustOffsetsS adjustOffsets
  split
  · exact ⟨rfl, rfl⟩
  · split
    · exact ⟨rfl, rfl⟩
    · split
      · exact ⟨rfl, rfl⟩
      · split
        · split
          · exact ⟨rfl, rfl⟩
          · have := shiftOffsetsS_spec cw true amt (len - start) (base + 8 + start * cw) bs
            exact ⟨by simp only [← this.1], this.2⟩
        · split
          · exact ⟨rfl, rfl⟩
          · have := shiftOffsetsS_spec cw false amt (len - start) (base + 8 + start * cw) bs
            exact ⟨by simp only [← this.1], this.2⟩

theorem adjustOffsetsFromPtrS_spec (cw base len src : Nat) (neg : Bool) (amt : Nat) (bs : List Nat) :
    (adjustOffsetsFromPtrS cw base len src neg amt bs).1 = adjustOffsetsFromPtr cw base len src neg amt bs ∧
    storesOnly (adjustOffsetsFromPtrS cw base len src neg amt bs).2 = true := by
  unfold adjustOffsetsFromPtrS adjustOffsetsFromPtr
  split
  · exact ⟨rfl, rfl⟩
  · exact adjustOffsetsS_spec ..

theorem ulistNotifyS_spec (cw base src : Nat) (neg : Bool) (amt : Nat) (bs : List Nat) :
    (ulistNotifyS cw base src neg amt bs).1 = ulistNotify cw base src neg amt bs ∧
    storesOnly (ulistNotifyS cw base src neg amt bs).2 = true := by
  unfold ulistNotifyS ulistNotify
  simp only []
  split
  · exact ⟨rfl, rfl⟩
  · split
    · exact ⟨rfl, rfl⟩
    · split
      · split
        · exact ⟨rfl, rfl⟩
        · split
          · exact ⟨rfl, rfl⟩
          · have := adjustOffsetsFromPtrS_spec cw base (rd32 bs (base + 4)) src neg amt
              (wr bs base (leN 4 (applyDelta neg amt (rd32 bs base))))
            exact ⟨by simp only [wr32, ← this.1], by simp only [storesOnly]; exact this.2⟩
      · exact ⟨rfl, rfl⟩

theorem notifyS_spec (p : List Step) : ∀ (s : Shape) (base src : Nat) (neg : Bool) (amt : Nat) (bs : List Nat),
    (notifyS s p base src neg amt bs).1 = notify s p base src neg amt bs ∧
    storesOnly (notifyS s p base src neg amt bs).2 = true := by
  induction p with
  | nil => intro s base src neg amt bs; exact ⟨rfl, rfl⟩
  | cons st p ih =>
    intro s base src neg amt bs
    simp only [notifyS, notify]
    cases hc : child s st base bs with
    | error e => exact ⟨rfl, rfl⟩
    | ok tb =>
      obtain ⟨t, b⟩ := tb
      simp only []
      have h1 := ih t b src neg amt bs
      generalize notifyS t p b src neg amt bs = x at *
      rcases x with ⟨r, ev⟩
      simp only [] at h1
      rw [← h1.1]
      cases r with
      | error e => exact ⟨rfl, h1.2⟩
      | ok bs1 =>
        simp only []
        cases s with
        | ulist e =>
          have h2 := ulistNotifyS_spec 4 base src neg amt bs1
          exact ⟨h2.1, by simp only [storesOnly_append, h1.2, h2.2]; rfl⟩
        | umap kw e =>
          have h2 := ulistNotifyS_spec (Shape.entryW kw) base src neg amt bs1
          exact ⟨h2.1, by simp only [storesOnly_append, h1.2, h2.2]; rfl⟩
        | _ => exact ⟨rfl, h1.2⟩

theorem ulistFillS_spec (cw sz : Nat) (key img : List Nat) : ∀ (n pos dpos off : Nat) (bs : List Nat),
    (ulistFillS cw sz key img n pos dpos off bs).1 = ulistFill cw sz key img n pos dpos off bs ∧
    storesOnly (ulistFillS cw sz key img n pos dpos off bs).2 = true := by
  intro n
  induction n with
  | zero => intro pos dpos off bs; exact ⟨rfl, rfl⟩
  | succ n ih =>
    intro pos dpos off bs
    simp only [ulistFillS, ulistFill]
    have := ih (pos + cw) (dpos + sz) (off + sz) (wr (wr bs dpos img) pos (leN 4 off ++ key))
    exact ⟨this.1, by simp only [storesOnly]; exact this.2⟩

/-! ## The wrapper primitives -/

theorem addBytesNS_proj (m : Mem) (c : Ctx) (src start amount : Nat) :
    proj (m.addBytesNS c src start amount) = m.addBytesNT c src start amount := by
  unfold Mem.addBytesNS Mem.addBytesNT proj
  rcases m.addBytesT start amount with ⟨⟨m1, r⟩, ev⟩
  cases r with
  | error e => simp
  | ok u =>
    cases u
    simp only []
    split
    · simp
    · have h := notifyS_spec c.path c.shape 0 src false amount m1.bytes
      generalize notifyS c.shape c.path 0 src false amount m1.bytes = x at *
      rcases x with ⟨r, sv⟩
      simp only [] at h
      rw [← h.1]
      cases r <;> simp [rawOf_storesOnly sv h.2]

theorem removeBytesNS_proj (m : Mem) (c : Ctx) (src start stop : Nat) :
    proj (m.removeBytesNS c src start stop) = m.removeBytesNT c src start stop := by
  unfold Mem.removeBytesNS Mem.removeBytesNT proj
  rcases m.removeBytesT start stop with ⟨⟨m1, r⟩, ev⟩
  cases r with
  | error e => simp
  | ok u =>
    cases u
    simp only []
    split
    · simp
    · have h := notifyS_spec c.path c.shape 0 src true (stop - start) m1.bytes
      generalize notifyS c.shape c.path 0 src true (stop - start) m1.bytes = x at *
      rcases x with ⟨r, sv⟩
      simp only [] at h
      rw [← h.1]
      cases r <;> simp [rawOf_storesOnly sv h.2]

/-! ## Ops -/

theorem listInsertAllS_proj (c : Ctx) (ew lw b idx : Nat) (items : List (List Nat)) (m : Mem) :
    proj (listInsertAllS c ew lw b idx items m) = listInsertAllT c ew lw b idx items m := by
  unfold listInsertAllS listInsertAllT
  simp only []
  split
  · rfl
  · split
    · rfl
    · rw [← addBytesNS_proj]
      rcases m.addBytesNS c b (b + lw + idx * ew) (ew * items.length) with ⟨⟨m1, r⟩, ev⟩
      cases r with
      | error e => rfl
      | ok u => cases u; simp [proj]

theorem listRemoveRangeS_proj (c : Ctx) (ew lw b lo hi : Nat) (m : Mem) :
    proj (listRemoveRangeS c ew lw b lo hi m) = listRemoveRangeT c ew lw b lo hi m := by
  unfold listRemoveRangeS listRemoveRangeT
  simp only []
  split
  · rfl
  · split
    · rfl
    · rw [← removeBytesNS_proj]
      rcases m.removeBytesNS c b (b + lw + lo * ew) (b + lw + hi * ew) with ⟨⟨m1, r⟩, ev⟩
      cases r with
      | error e => rfl
      | ok u => cases u; simp [proj]

theorem listPopS_proj (c : Ctx) (ew lw b : Nat) (m : Mem) :
    proj (listPopS c ew lw b m) = listPopT c ew lw b m := by
  unfold listPopS listPopT
  simp only []
  split
  · rfl
  · rw [← listRemoveRangeS_proj]
    rcases listRemoveRangeS c ew lw b (rdN m.bytes b lw - 1) (rdN m.bytes b lw) m with ⟨⟨m1, r⟩, ev⟩
    cases r with
    | error e => rfl
    | ok u => cases u; rfl

theorem listClearS_proj (c : Ctx) (ew lw b : Nat) (m : Mem) :
    proj (listClearS c ew lw b m) = listClearT c ew lw b m := by
  unfold listClearS listClearT
  exact listRemoveRangeS_proj ..

theorem setInsertS_proj (c : Ctx) (ew lw b : Nat) (e : List Nat) (m : Mem) :
    proj (setInsertS c ew lw b e m) = setInsertT c ew lw b e m := by
  unfold setInsertS setInsertT
  cases hs : search (listKeys ew lw ew b m.bytes) (rdLE e) 0 with
  | «at» i => rfl
  | ins i =>
    simp only []
    rw [← listInsertAllS_proj]
    rcases listInsertAllS c ew lw b i [e] m with ⟨⟨m1, r⟩, ev⟩
    cases r with
    | error e => rfl
    | ok u => cases u; rfl

theorem setInsertAllS_proj (c : Ctx) (ew lw b : Nat) (es : List (List Nat)) :
    ∀ (n : Nat) (m : Mem), proj (setInsertAllS c ew lw b es n m) = setInsertAllT c ew lw b es n m := by
  induction es with
  | nil => intro n m; rfl
  | cons e es ih =>
    intro n m
    simp only [setInsertAllS, setInsertAllT]
    rw [← setInsertS_proj]
    rcases setInsertS c ew lw b e m with ⟨⟨m1, r⟩, ev⟩
    cases r with
    | error e => rfl
    | ok new =>
      simp only [proj]
      rw [← ih]
      simp [proj]

theorem setRemoveS_proj (c : Ctx) (ew lw b : Nat) (e : List Nat) (m : Mem) :
    proj (setRemoveS c ew lw b e m) = setRemoveT c ew lw b e m := by
  unfold setRemoveS setRemoveT
  cases hs : search (listKeys ew lw ew b m.bytes) (rdLE e) 0 with
  | ins i => rfl
  | «at» i =>
    simp only []
    rw [← listRemoveRangeS_proj]
    rcases listRemoveRangeS c ew lw b i (i + 1) m with ⟨⟨m1, r⟩, ev⟩
    cases r with
    | error e => rfl
    | ok u => cases u; rfl

theorem mapInsertS_proj (c : Ctx) (kw vw lw b : Nat) (k v : List Nat) (m : Mem) :
    proj (mapInsertS c kw vw lw b k v m) = mapInsertT c kw vw lw b k v m := by
  unfold mapInsertS mapInsertT
  simp only []
  cases hs : search (listKeys (kw + vw) lw kw b m.bytes) (rdLE k) 0 with
  | «at» i => rfl
  | ins i =>
    simp only []
    rw [← listInsertAllS_proj]
    rcases listInsertAllS c (kw + vw) lw b i [k ++ v] m with ⟨⟨m1, r⟩, ev⟩
    cases r with
    | error e => rfl
    | ok u => cases u; rfl

theorem mapInsertAllS_proj (c : Ctx) (kw vw lw b : Nat) (kvs : List (List Nat × List Nat)) :
    ∀ (n : Nat) (m : Mem), proj (mapInsertAllS c kw vw lw b kvs n m) = mapInsertAllT c kw vw lw b kvs n m := by
  induction kvs with
  | nil => intro n m; rfl
  | cons kv kvs ih =>
    intro n m
    obtain ⟨k, v⟩ := kv
    simp only [mapInsertAllS, mapInsertAllT]
    rw [← mapInsertS_proj]
    rcases mapInsertS c kw vw lw b k v m with ⟨⟨m1, r⟩, ev⟩
    cases r with
    | error e => rfl
    | ok old =>
      simp only [proj]
      rw [← ih]
      simp [proj]

theorem mapRemoveS_proj (c : Ctx) (kw vw lw b : Nat) (k : List Nat) (m : Mem) :
    proj (mapRemoveS c kw vw lw b k m) = mapRemoveT c kw vw lw b k m := by
  unfold mapRemoveS mapRemoveT
  simp only []
  cases hs : search (listKeys (kw + vw) lw kw b m.bytes) (rdLE k) 0 with
  | ins i => rfl
  | «at» i =>
    simp only []
    rw [← listRemoveRangeS_proj]
    rcases listRemoveRangeS c (kw + vw) lw b i (i + 1) m with ⟨⟨m1, r⟩, ev⟩
    cases r with
    | error e => rfl
    | ok u => cases u; rfl

theorem strSetS_proj (c : Ctx) (lw b : Nat) (s : List Nat) (m : Mem) :
    proj (strSetS c lw b s m) = strSetT c lw b s m := by
  unfold strSetS strSetT
  rw [← listClearS_proj]
  rcases listClearS c 1 lw b m with ⟨⟨m1, r⟩, ev⟩
  cases r with
  | error e => rfl
  | ok u =>
    cases u
    simp only [proj]
    rw [← listInsertAllS_proj]
    simp [proj]

theorem remSetLenS_proj (c : Ctx) (b n : Nat) (m : Mem) :
    proj (remSetLenS c b n m) = remSetLenT c b n m := by
  unfold remSetLenS remSetLenT
  simp only []
  split
  · exact addBytesNS_proj ..
  · split
    · rfl
    · exact removeBytesNS_proj ..

theorem setDataInnerS_proj (c : Ctx) (t : Shape) (b : Nat) (newBytes : List Nat) (fails : Bool) (m : Mem) :
    proj (setDataInnerS c t b newBytes fails m) = setDataInnerT c t b newBytes fails m := by
  unfold setDataInnerS setDataInnerT
  cases hx : extent t (m.bytes.drop b) with
  | error e => rfl
  | ok cur =>
    simp only []
    by_cases h1 : cur < newBytes.length
    · simp only [h1, ↓reduceIte]
      rw [← addBytesNS_proj]
      rcases m.addBytesNS c b b (newBytes.length - cur) with ⟨⟨m1, r⟩, ev⟩
      cases r with
      | error e => rfl
      | ok u => cases u; simp only [proj]; split <;> simp
    · by_cases h2 : newBytes.length < cur
      · simp only [h1, h2, ↓reduceIte]
        rw [← removeBytesNS_proj]
        rcases m.removeBytesNS c b b (b + (cur - newBytes.length)) with ⟨⟨m1, r⟩, ev⟩
        cases r with
        | error e => rfl
        | ok u => cases u; simp only [proj]; split <;> simp
      · simp only [h1, h2, ↓reduceIte, proj]
        split <;> simp

theorem ulistInsertS_proj (c : Ctx) (cw : Nat) (e : Shape) (b idx n : Nat) (init : Init) (key : List Nat)
    (m : Mem) : proj (ulistInsertS c cw e b idx n init key m) = ulistInsertT c cw e b idx n init key m := by
  unfold ulistInsertS ulistInsertT
  simp only []
  split
  · rfl
  · rw [← addBytesNS_proj]
    rcases m.addBytesNS c b (b + 8 + rd32 m.bytes (b + 4) * cw + 4 + ulistOffset cw b idx m.bytes)
      ((initSize e init + cw) * n) with ⟨⟨m1, r⟩, ev⟩
    cases r with
    | error e => rfl
    | ok u =>
      cases u
      simp only [proj]
      split
      · simp
      · generalize wr32 (wr32 (wr32 _ _ _) _ _) _ _ = bs4
        have ha' := adjustOffsetsS_spec cw b (rd32 m.bytes (b + 4) + n) (idx + n) false (n * initSize e init) bs4
        generalize adjustOffsetsS cw b (rd32 m.bytes (b + 4) + n) (idx + n) false (n * initSize e init) bs4 = a at *
        rcases a with ⟨r, ev3⟩
        simp only [] at ha'
        rw [← ha'.1]
        cases r with
        | error er => simp [rawOf_storesOnly ev3 ha'.2]
        | ok bs5 =>
          simp only []
          split
          · simp [rawOf_storesOnly ev3 ha'.2]
          · split
            · simp [rawOf_storesOnly ev3 ha'.2]
            · have hf := ulistFillS_spec cw (initSize e init) key (initBytes e init) n (b + 8 + idx * cw)
                (b + 8 + (rd32 m.bytes (b + 4) + n) * cw + 4 + ulistOffset cw b idx m.bytes)
                (ulistOffset cw b idx m.bytes) bs5
              generalize ulistFillS cw (initSize e init) key (initBytes e init) n (b + 8 + idx * cw)
                (b + 8 + (rd32 m.bytes (b + 4) + n) * cw + 4 + ulistOffset cw b idx m.bytes)
                (ulistOffset cw b idx m.bytes) bs5 = f at *
              rcases f with ⟨bs6, ev4⟩
              simp only [] at hf
              simp [rawOf_storesOnly ev3 ha'.2, rawOf_storesOnly ev4 hf.2, hf.1]

theorem ulistClearS_proj (c : Ctx) (cw b : Nat) (m : Mem) :
    proj (ulistClearS c cw b m) = ulistClearT c cw b m := by
  unfold ulistClearS ulistClearT
  simp only []
  rw [← removeBytesNS_proj]
  rcases m.removeBytesNS c b (b + 8 + 4) (b + 8 + rd32 m.bytes (b + 4) * cw + 4 + rd32 m.bytes b) with ⟨⟨m1, r⟩, ev⟩
  cases r with
  | error e => rfl
  | ok u => cases u; simp [proj, wr32]

theorem ulistRemoveRangeS_proj (c : Ctx) (cw b lo hi : Nat) (m : Mem) :
    proj (ulistRemoveRangeS c cw b lo hi m) = ulistRemoveRangeT c cw b lo hi m := by
  unfold ulistRemoveRangeS ulistRemoveRangeT
  simp only []
  split
  · exact ulistClearS_proj ..
  · split
    · rfl
    · split
      · rfl
      · rw [← removeBytesNS_proj]
        generalize Mem.removeBytesNS _ c b _ _ = x
        rcases x with ⟨⟨m1, r⟩, ev⟩
        cases r with
        | error e => simp [proj]
        | ok u =>
          cases u
          simp only [proj]
          generalize wr32 (wr32 (wr32 _ _ _) _ _) _ _ = bs4
          have ha' := adjustOffsetsS_spec cw b (rd32 m.bytes (b + 4) - (hi - lo)) lo true
            (ulistOffset cw b hi m.bytes - ulistOffset cw b lo m.bytes) bs4
          generalize adjustOffsetsS cw b (rd32 m.bytes (b + 4) - (hi - lo)) lo true
            (ulistOffset cw b hi m.bytes - ulistOffset cw b lo m.bytes) bs4 = a at *
          rcases a with ⟨r, ev3⟩
          simp only [] at ha'
          rw [← ha'.1]
          cases r <;> simp [rawOf_storesOnly ev3 ha'.2]

theorem ulistPopS_proj (c : Ctx) (cw b : Nat) (m : Mem) :
    proj (ulistPopS c cw b m) = ulistPopT c cw b m := by
  unfold ulistPopS ulistPopT
  simp only []
  split
  · rfl
  · rw [← ulistRemoveRangeS_proj]
    rcases ulistRemoveRangeS c cw b (rd32 m.bytes (b + 4) - 1) (rd32 m.bytes (b + 4)) m with ⟨⟨m1, r⟩, ev⟩
    cases r with
    | error e => rfl
    | ok u => cases u; rfl

theorem unitResS_proj (x : TracedS Unit) : proj (unitResS x) = unitResT (proj x) := by
  rcases x with ⟨⟨m1, r⟩, ev⟩
  cases r with
  | error e => rfl
  | ok u => cases u; rfl

theorem umapInsertS_proj (c : Ctx) (kw : Nat) (e : Shape) (b : Nat) (k : List Nat) (init : Init) (m : Mem) :
    proj (umapInsertS c kw e b k init m) = umapInsertT c kw e b k init m := by
  unfold umapInsertS umapInsertT
  simp only []
  cases hs : search (umapKeys kw b m.bytes) (rdLE k) 0 with
  | «at» i =>
    simp only []
    rw [← setDataInnerS_proj]
    generalize setDataInnerS _ e _ _ _ m = x
    rcases x with ⟨⟨m1, r⟩, ev⟩
    cases r with
    | error e => rfl
    | ok u => cases u; rfl
  | ins i =>
    simp only []
    rw [← ulistInsertS_proj]
    rcases ulistInsertS c (Shape.entryW kw) e b i 1 init k m with ⟨⟨m1, r⟩, ev⟩
    cases r with
    | error e => rfl
    | ok u => cases u; rfl

theorem inPlaceS_proj (c : Ctx) (t : Shape) (b : Nat) (op : Op) (m : Mem) :
    proj (inPlaceS c t b op m) = (applyAt c t b op m, []) := by
  unfold inPlaceS proj
  simp only []
  split <;> (try rfl) <;> simp only [Prod.mk.injEq, true_and] <;> (try split) <;> (try split) <;> rfl

theorem sinsertS_proj (c : Ctx) (e : Fixed) (lw b : Nat) (x : List Nat) (m : Mem) :
    proj (applyAtS c (.set e lw) b (.sinsert x) m) = applyAtT c (.set e lw) b (.sinsert x) m := by
  simp only [applyAtS, applyAtT]
  split
  · rw [← setInsertS_proj]
    rcases setInsertS c e.size lw b x m with ⟨⟨m1, r⟩, ev⟩
    cases r <;> rfl
  · rfl

theorem minsertS_proj (c : Ctx) (kw : Nat) (v : Fixed) (lw b : Nat) (k x : List Nat) (m : Mem) :
    proj (applyAtS c (.map kw v lw) b (.minsert k x) m) = applyAtT c (.map kw v lw) b (.minsert k x) m := by
  simp only [applyAtS, applyAtT]
  split
  · rw [← mapInsertS_proj]
    rcases mapInsertS c kw v.size lw b k x m with ⟨⟨m1, r⟩, ev⟩
    cases r <;> rfl
  · rfl

theorem umremoveS_proj (c : Ctx) (kw : Nat) (e : Shape) (b : Nat) (k : List Nat) (m : Mem) :
    proj (applyAtS c (.umap kw e) b (.umremove k) m) = applyAtT c (.umap kw e) b (.umremove k) m := by
  simp only [applyAtS, applyAtT]
  split
  · cases hs : search (umapKeys kw b m.bytes) (rdLE k) 0 with
    | ins i => rfl
    | «at» i =>
      simp only []
      rw [← ulistRemoveRangeS_proj]
      rcases ulistRemoveRangeS c (Shape.entryW kw) b i (i + 1) m with ⟨⟨m1, r⟩, ev⟩
      cases r with
      | error e => rfl
      | ok u => cases u; rfl
  · rfl

set_option linter.unusedSimpArgs false in
/-- **The store-tracing op is the traced op plus stores** (same machine result, same raw events). -/
theorem applyAtS_proj (c : Ctx) (t : Shape) (b : Nat) (op : Op) (m : Mem) :
    proj (applyAtS c t b op m) = applyAtT c t b op m := by
  cases op with
  | sinsert x =>
    cases t with
    | set e lw => exact sinsertS_proj ..
    | _ => simp only [applyAtS, applyAtT, inPlaceS_proj]
  | minsert k x =>
    cases t with
    | map kw v lw => exact minsertS_proj ..
    | _ => simp only [applyAtS, applyAtT, inPlaceS_proj]
  | umremove k =>
    cases t with
    | umap kw e => exact umremoveS_proj ..
    | _ => simp only [applyAtS, applyAtT, inPlaceS_proj]
  | _ =>
    cases t <;> first
      | (simp only [applyAtS, applyAtT, inPlaceS_proj]; done)
      | (simp only [applyAtS, applyAtT, unitResS_proj, setDataInnerS_proj, listInsertAllS_proj,
          listRemoveRangeS_proj, listPopS_proj, listClearS_proj, setRemoveS_proj, setInsertAllS_proj,
          mapRemoveS_proj, mapInsertAllS_proj, strSetS_proj, remSetLenS_proj, ulistInsertS_proj,
          ulistRemoveRangeS_proj, ulistPopS_proj, ulistClearS_proj, umapInsertS_proj]; done)
      | (simp only [applyAtS, applyAtT]
         split <;> first
          | rfl
          | simp only [unitResS_proj, setDataInnerS_proj, listInsertAllS_proj,
              listRemoveRangeS_proj, listPopS_proj, listClearS_proj, setRemoveS_proj, setInsertAllS_proj,
              mapRemoveS_proj, mapInsertAllS_proj, strSetS_proj, remSetLenS_proj, ulistInsertS_proj,
              ulistRemoveRangeS_proj, ulistPopS_proj, ulistClearS_proj, umapInsertS_proj])

theorem applyOpS_proj (s : Shape) (abs : List Step) (op : Op) (m : Mem) :
    proj (applyOpS s abs op m) = applyOpT s abs op m := by
  unfold applyOpS applyOpT
  cases locate s abs 0 m.bytes with
  | error e => rfl
  | ok tb => obtain ⟨t, b⟩ := tb; exact applyAtS_proj ..

/-- … hence the byte machine's own result. -/
theorem applyOpS_fst (s : Shape) (abs : List Step) (op : Op) (m : Mem) :
    (applyOpS s abs op m).1 = applyOp s abs op m := by
  have := congrArg Prod.fst (applyOpS_proj s abs op m)
  simp only [proj] at this
  rw [this, applyOpT_fst]

theorem applyOpS_raw (s : Shape) (abs : List Step) (op : Op) (m : Mem) :
    rawOf (applyOpS s abs op m).2 = (applyOpT s abs op m).2 := by
  have := congrArg Prod.snd (applyOpS_proj s abs op m)
  simpa [proj] using this

end Unsized.Machine
