import Unsized.MachineUlistAlg
/-!
# The `UnsizedList` node: `insert_all_with_offsets`, `remove_range`, `clear`, `pop` on canonical bytes at any
nesting depth (`ulistInsert_grown`, `ulistRemoveRange_bytes`, `ulistClear_bytes`), and `ulist_refines`

Everything is stated for a node whose bytes are `uBytes keys datas` (`UNode`): an `UnsizedList` (`keys` all
empty, `kw = 0`) or an `UnsizedMap` (`keys` = the map keys, `kw` = key width), so `MachineNodeUmap` reuses it.
-/
namespace Unsized.Machine
open Common Unsized Unsized.Text

/-- The node `(t, u)` is stored as an `UnsizedList` with entry payloads `keys` (width `kw`) and element
images `datas`. -/
structure UNode (t : Shape) (u : Val) (kw : Nat) (keys datas : List (List Nat)) : Prop where
  enc : encode t u = uBytes keys datas
  len : keys.length = datas.length
  kw : ∀ k ∈ keys, k.length = kw

theorem uBytes_length (kw : Nat) (keys datas : List (List Nat)) (hl : keys.length = datas.length)
    (hk : ∀ k ∈ keys, k.length = kw) :
    (uBytes keys datas).length = 12 + datas.length * (4 + kw) + (datas.map List.length).sum := by
  rw [uBytes, List.length_append, uHdrOf_length kw keys _ (by simpa using hl) hk, sum_map_length_flatten]
  simp

theorem UNode.size {t u kw keys datas} (N : UNode t u kw keys datas) :
    (encode t u).length = 12 + datas.length * (4 + kw) + (datas.map List.length).sum := by
  rw [N.enc, uBytes_length kw keys datas N.len N.kw]

/-- The header fields read through the accessor. -/
theorem u_reads {s v p t u m kw keys datas} (F : Focus s v p t u m) (N : UNode t u kw keys datas)
    (hsm : m.bytes.length < Shape.u32Lim) :
    rd32 m.bytes (offsetOf s v p) = (datas.map List.length).sum
    ∧ rd32 m.bytes (offsetOf s v p + 4) = datas.length
    ∧ ∀ j, j < datas.length →
        rd32 m.bytes (offsetOf s v p + 8 + j * (4 + kw)) = ((datas.map List.length).take j).sum := by
  have hsz := N.size
  have hle := offsetOf_le p s v t u F.good F.res
  rw [F.bytes] at hsm
  have hE : encode t u = [] ++ uHdrOf keys (datas.map List.length) ++ datas.flatten := by
    rw [N.enc, uBytes]; simp
  have hl' : keys.length = (datas.map List.length).length := by simpa using N.len
  have hLle : datas.length ≤ datas.length * (4 + kw) := Nat.le_mul_of_pos_right _ (by omega)
  refine ⟨?_, ?_, ?_⟩
  · have := enc_rdN p s v t u F.good F.res 0 4 (by omega)
    rw [Nat.add_zero] at this
    unfold rd32
    rw [F.bytes, this, hE]
    exact rd32_uHdr_usz keys _ [] _ 0 rfl (by omega)
  · have := enc_rdN p s v t u F.good F.res 4 4 (by omega)
    unfold rd32
    rw [F.bytes, this, hE]
    have := rd32_uHdr_len keys (datas.map List.length) [] datas.flatten 0 rfl (by simp; omega)
    simpa [rd32] using this
  · intro j hj
    have hjm : (j + 1) * (4 + kw) ≤ datas.length * (4 + kw) := Nat.mul_le_mul_right _ hj
    rw [Nat.add_mul] at hjm
    have := enc_rdN p s v t u F.good F.res (8 + j * (4 + kw)) 4 (by omega)
    unfold rd32
    rw [F.bytes, Nat.add_assoc, this, hE]
    have := rd32_uHdr_off kw keys (datas.map List.length) [] datas.flatten 0 j rfl hl' N.kw (by omega)
      (by simpa using hj)
    simpa [rd32] using this

/-- `get_offset(idx)` for `idx ≤ len`. -/
theorem u_offset {s v p t u m kw keys datas} (F : Focus s v p t u m) (N : UNode t u kw keys datas)
    (hsm : m.bytes.length < Shape.u32Lim) (idx : Nat) (hidx : idx ≤ datas.length) :
    ulistOffset (4 + kw) (offsetOf s v p) idx m.bytes = ((datas.map List.length).take idx).sum := by
  obtain ⟨h1, h2, h3⟩ := u_reads F N hsm
  unfold ulistOffset
  rw [h2]
  by_cases h : idx < datas.length
  · rw [if_pos h, h3 idx h]
  · rw [if_neg h, h1, List.take_of_length_le (by simp; omega)]

/-- The serialized list cut at the start of element `idx`. -/
theorem uBytes_cut (kw : Nat) (keys datas : List (List Nat)) (hl : keys.length = datas.length)
    (hk : ∀ k ∈ keys, k.length = kw) (idx : Nat) :
    (uBytes keys datas).take (12 + datas.length * (4 + kw) + ((datas.map List.length).take idx).sum)
        = leN 4 (datas.map List.length).sum ++ leN 4 datas.length
          ++ tbl ((offsets (datas.map List.length) 0).take idx) (keys.take idx)
          ++ tbl ((offsets (datas.map List.length) 0).drop idx) (keys.drop idx)
          ++ leN 4 datas.length ++ (datas.take idx).flatten
    ∧ (uBytes keys datas).drop (12 + datas.length * (4 + kw) + ((datas.map List.length).take idx).sum)
        = (datas.drop idx).flatten := by
  have hH := uHdrOf_length kw keys (datas.map List.length) (by simpa using hl) hk
  simp only [List.length_map] at hH
  have hfl : datas.flatten = (datas.take idx).flatten ++ (datas.drop idx).flatten := by
    rw [← List.flatten_append, List.take_append_drop]
  rw [sum_map_length_take]
  constructor
  · rw [uBytes, take_append_add _ _ _ _ hH.symm, hfl, take_append_len _ _ _ rfl, uHdrOf,
      tbl_split (offsets (datas.map List.length) 0) keys idx]
    simp [List.append_assoc]
  · rw [uBytes, drop_append_add _ _ _ _ hH.symm, hfl, drop_append_len _ _ _ rfl]

theorem mul_sub_split (a b c : Nat) (h : b ≤ a) : a * c = b * c + (a - b) * c := by
  rw [← Nat.add_mul]; congr 1; omega

/-- **`insert_all_with_offsets` after a successful resize**: `n` copies of the initial image `img` (entry
payload `key`) end up at index `idx`, header and offsets rewritten — the node is `uBytes keys' datas'`. -/
theorem ulistInsert_grown {s v p t u m kw keys datas} (F : Focus s v p t u m) (N : UNode t u kw keys datas)
    (e : Shape) (idx n : Nat) (init : Init) (key : List Nat) (hidx : idx ≤ datas.length)
    (hkey : key.length = kw) (hsz : (initBytes e init).length = initSize e init)
    (hf : initFails e init = false) (G : List Nat) (m1 : Mem)
    (hG : G.length = (initSize e init + (4 + kw)) * n)
    (hadd : m.addBytesN ⟨s, p⟩ (offsetOf s v p)
        (offsetOf s v p + (12 + datas.length * (4 + kw) + ((datas.map List.length).take idx).sum))
        ((initSize e init + (4 + kw)) * n) = (m1, .ok ()))
    (hb1 : m1.bytes = plug s v p
        ((encode t u).take (12 + datas.length * (4 + kw) + ((datas.map List.length).take idx).sum) ++ G
          ++ (encode t u).drop (12 + datas.length * (4 + kw) + ((datas.map List.length).take idx).sum)))
    (hroom : (encode s v).length + (initSize e init + (4 + kw)) * n < Shape.u32Lim) :
    ulistInsert ⟨s, p⟩ (4 + kw) e (offsetOf s v p) idx n init key m
      = ({ m1 with bytes := plug s v p (uBytes (Spec.insertAt keys idx (List.replicate n key))
            (Spec.insertAt datas idx (List.replicate n (initBytes e init)))) }, .ok ()) := by
  have hsm : m.bytes.length < Shape.u32Lim := by rw [F.bytes]; omega
  obtain ⟨hr1, hr2, _⟩ := u_reads F N hsm
  have hoff := u_offset F N hsm idx hidx
  have hEsz := N.size
  have hle := offsetOf_le p s v t u F.good F.res
  obtain ⟨sz, hszdef⟩ : ∃ x, x = initSize e init := ⟨_, rfl⟩
  obtain ⟨img, himgdef⟩ : ∃ x, x = initBytes e init := ⟨_, rfl⟩
  obtain ⟨off, hoffdef⟩ : ∃ x, x = ((datas.map List.length).take idx).sum := ⟨_, rfl⟩
  rw [← hszdef] at hG hadd hroom hsz
  rw [← himgdef] at hsz ⊢
  rw [← hoffdef] at hadd hb1 hoff
  have hamt : (sz + (4 + kw)) * n = n * sz + n * (4 + kw) := by rw [Nat.add_mul, Nat.mul_comm sz, Nat.mul_comm (4 + kw)]
  have hnle : n ≤ n * (4 + kw) := Nat.le_mul_of_pos_right n (by omega)
  have hoffle : off ≤ (datas.map List.length).sum := by rw [hoffdef]; exact sum_take_le _ _
  have hLmul := mul_sub_split datas.length idx (4 + kw) hidx
  have hLle : datas.length ≤ datas.length * (4 + kw) := Nat.le_mul_of_pos_right _ (by omega)
  apply ulistInsert_of_tail _ _ _ _ _ _ _ _ _ _ _ (by rw [hr2]; omega) (by
      rw [hr2, hoff, ← hszdef]
      have : offsetOf s v p + 8 + datas.length * (4 + kw) + 4 + off
          = offsetOf s v p + (12 + datas.length * (4 + kw) + off) := by omega
      rw [this]; exact hadd) (by rw [hr2]; omega) hf
  rw [hr2, hoff, ← hszdef, ← himgdef, hb1]
  -- the bytes after the resize, and the frame around the node
  obtain ⟨hcutT, hcutD⟩ := uBytes_cut kw keys datas N.len N.kw idx
  rw [← hoffdef] at hcutT hcutD
  obtain ⟨C, hC⟩ := plug_decomp p s v t u F.good F.res
  obtain ⟨S, hS⟩ : ∃ x, x = (datas.map List.length).sum := ⟨_, rfl⟩
  obtain ⟨o, ho⟩ : ∃ x, x = offsets (datas.map List.length) 0 := ⟨_, rfl⟩
  have hol : o.length = datas.length := by rw [ho]; simp
  have hole : ∀ x ∈ o, x ≤ S := by
    intro x hx; rw [ho] at hx; have := offsets_le _ 0 x hx; omega
  rw [← hS] at hr1 hEsz hoffle
  rw [← hS, ← ho] at hcutT
  rw [N.enc, hcutT, hcutD]
  have ho1l : (o.take idx).length = (keys.take idx).length := by
    simp [hol, N.len]
  have ho2l : (o.drop idx).length = (keys.drop idx).length := by
    simp [hol, N.len]
  have hT1 : (tbl (o.take idx) (keys.take idx)).length = idx * (4 + kw) := by
    rw [tbl_length kw _ _ ho1l (fun k hk => N.kw k (List.mem_of_mem_take hk))]
    simp [hol, Nat.min_eq_left hidx]
  have hT2 : (tbl (o.drop idx) (keys.drop idx)).length = (datas.length - idx) * (4 + kw) := by
    rw [tbl_length kw _ _ ho2l (fun k hk => N.kw k (List.mem_of_mem_drop hk))]
    simp [hol]
  have hD1 : (datas.take idx).flatten.length = off := by rw [hoffdef, sum_map_length_take]
  obtain ⟨T1, hT1d⟩ : ∃ x, x = tbl (o.take idx) (keys.take idx) := ⟨_, rfl⟩
  obtain ⟨D1, hD1d⟩ : ∃ x, x = (datas.take idx).flatten := ⟨_, rfl⟩
  obtain ⟨D2, hD2d⟩ : ∃ x, x = (datas.drop idx).flatten := ⟨_, rfl⟩
  rw [← hT1d] at hT1 ⊢
  rw [← hD1d] at hD1 ⊢
  rw [← hD2d]
  have hX0len : (leN 4 S ++ leN 4 datas.length ++ T1 ++ tbl (o.drop idx) (keys.drop idx) ++ leN 4 datas.length ++ D1
      ++ G ++ D2).length = (encode t u).length + (sz + (4 + kw)) * n := by
    have h1 := congrArg List.length hcutT
    have h2 := congrArg List.length hcutD
    rw [← hT1d, ← hD1d] at h1
    rw [← hD2d] at h2
    rw [List.length_take] at h1
    rw [List.length_drop] at h2
    rw [← N.enc] at h1 h2
    simp only [List.length_append] at h1 ⊢
    omega
  obtain ⟨A, hA, hAX⟩ := hC ((encode t u).length + (sz + (4 + kw)) * n)
  rw [hAX _ hX0len]
  -- the memmove
  have hmm := memmove_up (A ++ leN 4 S ++ leN 4 datas.length ++ T1)
    (tbl (o.drop idx) (keys.drop idx) ++ leN 4 datas.length ++ D1) G (D2 ++ C) (n * (4 + kw))
    (offsetOf s v p + 8 + idx * (4 + kw) + n * (4 + kw)) (offsetOf s v p + 8 + idx * (4 + kw))
    (offsetOf s v p + 8 + datas.length * (4 + kw) + 4 + off - (offsetOf s v p + 8 + idx * (4 + kw)))
    (by rw [hG]; omega) (by simp only [List.length_append, leN_length, hT1, hA]; try omega)
    (by simp only [List.length_append, leN_length, hT1, hA]; try omega)
    (by simp only [List.length_append, leN_length, hT2, hD1]; omega)
  have e0 : A ++ (leN 4 S ++ leN 4 datas.length ++ T1 ++ tbl (o.drop idx) (keys.drop idx) ++ leN 4 datas.length ++ D1
        ++ G ++ D2) ++ C
      = A ++ leN 4 S ++ leN 4 datas.length ++ T1 ++ (tbl (o.drop idx) (keys.drop idx) ++ leN 4 datas.length ++ D1)
        ++ G ++ (D2 ++ C) := by simp only [List.append_assoc]
  rw [e0, hmm]
  obtain ⟨J1, hJ1d⟩ : ∃ x, x = ((tbl (o.drop idx) (keys.drop idx) ++ leN 4 datas.length ++ D1) ++ G).take (n * (4 + kw)) :=
    ⟨_, rfl⟩
  obtain ⟨J2, hJ2d⟩ : ∃ x, x = G.drop (n * (4 + kw)) := ⟨_, rfl⟩
  have hJ1 : J1.length = n * (4 + kw) := by
    rw [hJ1d, List.length_take]; simp only [List.length_append, hG]; omega
  have hJ2 : J2.length = n * sz := by rw [hJ2d, List.length_drop, hG]; omega
  rw [← hJ1d, ← hJ2d]
  have e1 : A ++ leN 4 S ++ leN 4 datas.length ++ T1 ++ J1 ++ (tbl (o.drop idx) (keys.drop idx) ++ leN 4 datas.length ++ D1)
        ++ J2 ++ (D2 ++ C)
      = A ++ leN 4 S ++ leN 4 datas.length ++ T1 ++ J1 ++ tbl (o.drop idx) (keys.drop idx) ++ leN 4 datas.length ++ D1
        ++ J2 ++ D2 ++ C := by simp only [List.append_assoc]
  rw [e1, uInsTail_generic kw A T1 J1 (o.drop idx) (keys.drop idx) D1 J2 D2 C (offsetOf s v p) idx n sz datas.length S off
    key img hA.symm hT1 hJ1 ho2l (by simp [hol]) hidx (fun k hk => N.kw k (List.mem_of_mem_drop hk)) hD1 hJ2 hkey hsz
    (by omega) (fun x hx => hole x (List.mem_of_mem_drop hx))]
  -- the result is the serialization of the new list
  have hfin := uBytes_insert keys datas N.len idx n hidx key img
  rw [hsz, ← hS, ← ho, ← hoffdef, ← hT1d, ← hD1d, ← hD2d] at hfin
  have hUlen : (uBytes (Spec.insertAt keys idx (List.replicate n key))
      (Spec.insertAt datas idx (List.replicate n img))).length = (encode t u).length + (sz + (4 + kw)) * n := by
    rw [← hfin]
    have h1 := congrArg List.length hcutT
    have h2 := congrArg List.length hcutD
    rw [← hT1d, ← hD1d] at h1
    rw [← hD2d] at h2
    rw [List.length_take] at h1
    rw [List.length_drop] at h2
    rw [← N.enc] at h1 h2
    have hT2' : (tbl ((o.drop idx).map (applyDelta false (n * sz))) (keys.drop idx)).length
        = (datas.length - idx) * (4 + kw) := by
      rw [tbl_length kw _ _ (by simpa using ho2l) (fun k hk => N.kw k (List.mem_of_mem_drop hk))]
      simp [hol]
    have hTn : (tbl (offsets (List.replicate n sz) off) (List.replicate n key)).length = n * (4 + kw) := by
      rw [tbl_length kw _ _ (by simp) (fun k hk => by rw [(List.mem_replicate.1 hk).2]; exact hkey)]
      simp
    have hfl : (List.replicate n img).flatten.length = n * sz := by
      rw [flatten_width sz _ (fun x hx => by rw [(List.mem_replicate.1 hx).2]; exact hsz)]; simp
    simp only [List.length_append, leN_length, hT2, hT2', hTn, hfl] at h1 ⊢
    omega
  rw [hAX _ hUlen, ← hfin]
  simp only [List.append_assoc]


/-! ## `remove_bytes` on a buffer whose node bytes are not (yet) canonical -/

/-- With the hole's length unchanged, `plug` is just the replacement of the node's bytes. -/
theorem plug_frame {s v p t u} (g : Good s v) (h : resolve s v p = .ok (t, u)) :
    ∃ A C : List Nat, A.length = offsetOf s v p ∧ encode s v = A ++ encode t u ++ C
      ∧ (∀ X : List Nat, X.length = (encode t u).length → plug s v p X = A ++ X ++ C)
      ∧ (∀ X : List Nat, splice (encode s v) (offsetOf s v p) (encode t u).length X = A ++ X ++ C) := by
  obtain ⟨A, C, hA, henc, hsp⟩ := encode_split p s v t u g h
  obtain ⟨C', hC'⟩ := plug_decomp p s v t u g h
  obtain ⟨A', hA', hAX'⟩ := hC' (encode t u).length
  have h1 := hAX' (encode t u) rfl
  rw [plug_self p s v t u g h, henc] at h1
  have h2 : A ++ (encode t u ++ C) = A' ++ (encode t u ++ C') := by simpa [List.append_assoc] using h1
  obtain ⟨hAA, hrest⟩ := List.append_inj h2 (by rw [hA, hA'])
  have hCC : C = C' := List.append_cancel_left hrest
  subst hAA hCC
  exact ⟨A, C, hA, henc, hAX', hsp⟩

/-- **`remove_bytes` inside a node whose bytes `X0` are arbitrary** (same length as the canonical ones; the rest
of the buffer is canonical): the range is cut out and all enclosing headers are updated. -/
theorem shrink_plug {s v p t u} (g : Good s v) (h : resolve s v p = .ok (t, u)) (m : Mem) (X0 : List Nat)
    (hX0 : X0.length = (encode t u).length) (hm : m.bytes = plug s v p X0) (k1 k2 : Nat) (hk : k1 ≤ k2)
    (hk2 : k2 ≤ X0.length) :
    ∃ m1 : Mem, m.removeBytesN ⟨s, p⟩ (offsetOf s v p) (offsetOf s v p + k1) (offsetOf s v p + k2) = (m1, .ok ())
      ∧ m1.bytes = plug s v p (X0.take k1 ++ X0.drop k2)
      ∧ m1.orig = m.orig ∧ m1.refuse = m.refuse ∧ m1.grows = m.grows := by
  obtain ⟨A, C, hA, henc, hpl, hsp⟩ := plug_frame g h
  have hmb : m.bytes = A ++ X0 ++ C := by rw [hm, hpl X0 hX0]
  have hlen : m.bytes.length = A.length + X0.length + C.length := by rw [hmb]; simp only [List.length_append]
  by_cases heq : k1 = k2
  · subst heq
    refine ⟨m, ?_, ?_, rfl, rfl, rfl⟩
    · unfold Mem.removeBytesN Mem.removeBytes
      have h1 : ¬ m.bytes.length < offsetOf s v p + k1 := by omega
      simp [h1]
    · rw [List.take_append_drop]; exact hm
  · have hraw : removeBytesRaw m.bytes (offsetOf s v p + k1) (offsetOf s v p + k2)
        = splice (encode s v) (offsetOf s v p) (encode t u).length (X0.take k1 ++ X0.drop k2) := by
      rw [hsp, removeBytesRaw, hmb]
      have e : A ++ X0 ++ C = A ++ (X0 ++ C) := List.append_assoc ..
      rw [e, take_append_add A _ _ _ hA.symm, drop_append_add A _ _ _ hA.symm,
        List.take_append_of_le_length (by omega), List.drop_append_of_le_length hk2]
      simp [List.append_assoc]
    have hnot := notify_plug p s v t u g h [] [] (X0.take k1 ++ X0.drop k2) 0
      (offsetOf s v p) true (k2 - k1) rfl (by omega)
      (by simp [applyDelta]; omega) (by intro _; omega) (by simp) (by intro h; cases h)
    simp only [List.nil_append, List.append_nil] at hnot
    refine ⟨{ m with bytes := plug s v p (X0.take k1 ++ X0.drop k2) }, ?_, rfl, rfl, rfl, rfl⟩
    unfold Mem.removeBytesN Mem.removeBytes
    have h1 : ¬ m.bytes.length < offsetOf s v p + k1 := by omega
    have h2 : ¬ offsetOf s v p + k2 < offsetOf s v p + k1 := by omega
    have h3 : ¬ m.bytes.length < offsetOf s v p + k2 := by omega
    have h4 : offsetOf s v p + k2 ≠ offsetOf s v p + k1 := by omega
    have h5 : offsetOf s v p + k2 - (offsetOf s v p + k1) = k2 - k1 := by omega
    simp only [h1, h2, h3, h4, if_false, hraw, h5, hnot]

/-! ## `clear` -/

/-- **`UnsizedList::clear`** on the node at `p`. -/
theorem ulistClear_bytes {s v p t u m kw keys datas} (F : Focus s v p t u m) (N : UNode t u kw keys datas)
    (hsm : m.bytes.length < Shape.u32Lim) :
    ∃ m1 : Mem, ulistClear ⟨s, p⟩ (4 + kw) (offsetOf s v p) m = (m1, .ok ())
      ∧ m1.bytes = plug s v p (uBytes [] [])
      ∧ m1.orig = m.orig ∧ m1.refuse = m.refuse ∧ m1.grows = m.grows := by
  obtain ⟨hr1, hr2, _⟩ := u_reads F N hsm
  have hEsz := N.size
  obtain ⟨m1, hrem, hb1, ho1, hrf1, hg1⟩ := F.shrink 12 (encode t u).length (by omega) (Nat.le_refl _)
  unfold ulistClear
  simp only [hr1, hr2]
  have hp1 : offsetOf s v p + 8 + 4 = offsetOf s v p + 12 := by omega
  have hp2 : offsetOf s v p + 8 + datas.length * (4 + kw) + 4 + (datas.map List.length).sum
      = offsetOf s v p + (encode t u).length := by omega
  rw [hp1, hp2, hrem]
  simp only []
  refine ⟨_, rfl, ?_, ho1, hrf1, hg1⟩
  simp only []
  rw [hb1, List.drop_length, List.append_nil]
  obtain ⟨C, hC⟩ := plug_decomp p s v t u F.good F.res
  obtain ⟨A, hA, hAX⟩ := hC 12
  have hX : ((encode t u).take 12).length = 12 := by rw [List.length_take]; omega
  rw [hAX _ hX, uClear_bytes A _ C _ hA.symm hX, hAX _ (by simp [uBytes, uHdrOf, offsets])]


/-! ## `remove_range` -/

theorem take_split {α : Type} (l : List α) (lo hi : Nat) (h : lo ≤ hi) :
    l.take hi = l.take lo ++ (l.drop lo).take (hi - lo) := by
  have : hi = lo + (hi - lo) := by omega
  conv => lhs; rw [this, List.take_add]

theorem drop_split {α : Type} (l : List α) (lo hi : Nat) (h : lo ≤ hi) :
    l.drop lo = (l.drop lo).take (hi - lo) ++ l.drop hi := by
  have : l.drop hi = (l.drop lo).drop (hi - lo) := by rw [List.drop_drop]; congr 1; omega
  rw [this, List.take_append_drop]

/-- The serialized list cut around the elements `lo..hi` (`M` = their offset entries, `Dm` = their images). -/
theorem uBytes_cut2 (kw : Nat) (keys datas : List (List Nat)) (hl : keys.length = datas.length)
    (hk : ∀ k ∈ keys, k.length = kw) (lo hi : Nat) (hlo : lo ≤ hi) (hhi : hi ≤ datas.length) :
    ∃ M Dm : List Nat, M.length = (hi - lo) * (4 + kw)
      ∧ Dm.length + ((datas.map List.length).take lo).sum = ((datas.map List.length).take hi).sum
      ∧ uBytes keys datas = leN 4 (datas.map List.length).sum ++ leN 4 datas.length
          ++ tbl ((offsets (datas.map List.length) 0).take lo) (keys.take lo) ++ M
          ++ tbl ((offsets (datas.map List.length) 0).drop hi) (keys.drop hi)
          ++ leN 4 datas.length ++ (datas.take lo).flatten ++ Dm ++ (datas.drop hi).flatten := by
  obtain ⟨o, ho⟩ : ∃ x, x = offsets (datas.map List.length) 0 := ⟨_, rfl⟩
  have hol : o.length = datas.length := by rw [ho]; simp
  refine ⟨tbl ((o.drop lo).take (hi - lo)) ((keys.drop lo).take (hi - lo)),
    ((datas.drop lo).take (hi - lo)).flatten, ?_, ?_, ?_⟩
  · rw [tbl_length kw _ _ (by simp [hol, hl]) (fun k hk' => hk k (List.mem_of_mem_drop (List.mem_of_mem_take hk')))]
    simp [hol]; congr 1; omega
  · rw [sum_map_length_take, sum_map_length_take, take_split datas lo hi hlo, List.flatten_append,
      List.length_append]; omega
  · have htb : tbl o keys = tbl (o.take lo) (keys.take lo)
        ++ tbl ((o.drop lo).take (hi - lo)) ((keys.drop lo).take (hi - lo)) ++ tbl (o.drop hi) (keys.drop hi) := by
      rw [tbl_split o keys lo, tbl_split (o.drop lo) (keys.drop lo) (hi - lo), List.drop_drop, List.drop_drop]
      have : lo + (hi - lo) = hi := by omega
      rw [this, List.append_assoc]
    have hfl : datas.flatten = (datas.take lo).flatten ++ ((datas.drop lo).take (hi - lo)).flatten
        ++ (datas.drop hi).flatten := by
      rw [← List.flatten_append, ← List.flatten_append, List.append_assoc, ← drop_split datas lo hi hlo,
        List.take_append_drop]
    rw [← ho, uBytes, uHdrOf, ← ho, htb, hfl]
    simp [List.append_assoc]

theorem offsets_ge (l : List Nat) (acc : Nat) : ∀ x ∈ offsets l acc, acc ≤ x := by
  induction l generalizing acc with
  | nil => intro x hx; simp [offsets] at hx
  | cons a r ih =>
    intro x hx
    simp only [offsets, List.mem_cons] at hx
    rcases hx with rfl | hx
    · omega
    · have := ih (acc + a) x hx; omega

/-- **`UnsizedList::remove_range(lo..hi)`** (not the `clear` shortcut) on the node at `p`. -/
theorem ulistRemoveRange_bytes {s v p t u m kw keys datas} (F : Focus s v p t u m) (N : UNode t u kw keys datas)
    (hsm : m.bytes.length < Shape.u32Lim) (lo hi : Nat) (hlo : lo ≤ hi) (hhi : hi ≤ datas.length)
    (hnc : ¬ (lo = 0 ∧ hi = datas.length)) :
    ∃ m1 : Mem, ulistRemoveRange ⟨s, p⟩ (4 + kw) (offsetOf s v p) lo hi m = (m1, .ok ())
      ∧ m1.bytes = plug s v p (uBytes (Spec.removeRange keys lo hi) (Spec.removeRange datas lo hi))
      ∧ m1.orig = m.orig ∧ m1.refuse = m.refuse ∧ m1.grows = m.grows := by
  obtain ⟨hr1, hr2, _⟩ := u_reads F N hsm
  have hso := u_offset F N hsm lo (by omega)
  have heo := u_offset F N hsm hi hhi
  have hEsz := N.size
  have hle := offsetOf_le p s v t u F.good F.res
  have hsm' : (encode s v).length < Shape.u32Lim := by rw [← F.bytes]; exact hsm
  obtain ⟨M, Dm, hM, hDm, hcut⟩ := uBytes_cut2 kw keys datas N.len N.kw lo hi hlo hhi
  obtain ⟨S, hS⟩ : ∃ x, x = (datas.map List.length).sum := ⟨_, rfl⟩
  obtain ⟨o, ho⟩ : ∃ x, x = offsets (datas.map List.length) 0 := ⟨_, rfl⟩
  obtain ⟨so, hsod⟩ : ∃ x, x = ((datas.map List.length).take lo).sum := ⟨_, rfl⟩
  obtain ⟨eo, heod⟩ : ∃ x, x = ((datas.map List.length).take hi).sum := ⟨_, rfl⟩
  have hol : o.length = datas.length := by rw [ho]; simp
  have hole : ∀ x ∈ o, x ≤ S := by
    intro x hx; rw [ho] at hx; have := offsets_le _ 0 x hx; omega
  have heoS : eo ≤ S := by rw [heod, hS]; exact sum_take_le _ _
  have hoge : ∀ x ∈ o.drop hi, eo ≤ x := by
    intro x hx
    rw [ho, offsets_drop _ 0 hi (by simpa using hhi), Nat.zero_add, ← heod] at hx
    exact offsets_ge _ _ x hx
  rw [← hS, ← ho] at hcut
  rw [← hS] at hr1 hEsz
  rw [← hsod] at hso hDm
  rw [← heod] at heo hDm
  have ho1l : (o.take lo).length = (keys.take lo).length := by simp [hol, N.len]
  have ho2l : (o.drop hi).length = (keys.drop hi).length := by simp [hol, N.len]
  have hT1 : (tbl (o.take lo) (keys.take lo)).length = lo * (4 + kw) := by
    rw [tbl_length kw _ _ ho1l (fun k hk => N.kw k (List.mem_of_mem_take hk))]
    simp [hol, Nat.min_eq_left (by omega : lo ≤ datas.length)]
  have hT2 : (tbl (o.drop hi) (keys.drop hi)).length = (datas.length - hi) * (4 + kw) := by
    rw [tbl_length kw _ _ ho2l (fun k hk => N.kw k (List.mem_of_mem_drop hk))]
    simp [hol]
  have hD1 : (datas.take lo).flatten.length = so := by rw [hsod, sum_map_length_take]
  obtain ⟨T1, hT1d⟩ : ∃ x, x = tbl (o.take lo) (keys.take lo) := ⟨_, rfl⟩
  obtain ⟨T2, hT2d⟩ : ∃ x, x = tbl (o.drop hi) (keys.drop hi) := ⟨_, rfl⟩
  obtain ⟨D1, hD1d⟩ : ∃ x, x = (datas.take lo).flatten := ⟨_, rfl⟩
  obtain ⟨T, hTd⟩ : ∃ x, x = (datas.drop hi).flatten := ⟨_, rfl⟩
  rw [← hT1d] at hT1 hcut
  rw [← hT2d] at hT2 hcut
  rw [← hD1d] at hD1 hcut
  rw [← hTd] at hcut
  have hLhi := mul_sub_split datas.length hi (4 + kw) hhi
  have hhilo := mul_sub_split hi lo (4 + kw) hlo
  have hcomm : (4 + kw) * (hi - lo) = (hi - lo) * (4 + kw) := Nat.mul_comm _ _
  have hLn : (datas.length - (hi - lo)) * (4 + kw) = lo * (4 + kw) + (datas.length - hi) * (4 + kw) := by
    rw [← Nat.add_mul]; congr 1; omega
  -- the frame
  obtain ⟨A, C, hA, henc, hpl, _⟩ := plug_frame F.good F.res
  have hEl : (encode t u).length = (leN 4 S ++ leN 4 datas.length ++ T1 ++ M ++ T2 ++ leN 4 datas.length ++ D1 ++ Dm ++ T).length := by
    rw [N.enc, hcut]
  -- the memmove
  obtain ⟨J, hJd⟩ : ∃ x, x = (M ++ (T2 ++ leN 4 datas.length ++ D1)).drop (T2 ++ leN 4 datas.length ++ D1).length := ⟨_, rfl⟩
  have hJ : J.length = (hi - lo) * (4 + kw) := by rw [hJd, List.length_drop, List.length_append]; omega
  have hmm : memmove m.bytes (offsetOf s v p + 8 + lo * (4 + kw)) (offsetOf s v p + 8 + hi * (4 + kw))
      (offsetOf s v p + 8 + datas.length * (4 + kw) + 4 + so - (offsetOf s v p + 8 + hi * (4 + kw)))
      = plug s v p (leN 4 S ++ leN 4 datas.length ++ T1 ++ (T2 ++ leN 4 datas.length ++ D1) ++ J ++ Dm ++ T) := by
    rw [hpl _ (by rw [hEl]; simp only [List.length_append, hJ, hM]; omega)]
    have hm0 := memmove_down (A ++ leN 4 S ++ leN 4 datas.length ++ T1) M (T2 ++ leN 4 datas.length ++ D1) (Dm ++ T ++ C)
      (offsetOf s v p + 8 + lo * (4 + kw)) (offsetOf s v p + 8 + hi * (4 + kw))
      (offsetOf s v p + 8 + datas.length * (4 + kw) + 4 + so - (offsetOf s v p + 8 + hi * (4 + kw)))
      (by simp only [List.length_append, leN_length, hT1, hA]; try omega)
      (by simp only [List.length_append, leN_length, hT1, hA, hM]; omega)
      (by simp only [List.length_append, leN_length, hT2, hD1]; omega)
    rw [← hJd] at hm0
    have e0 : m.bytes = A ++ leN 4 S ++ leN 4 datas.length ++ T1 ++ M ++ (T2 ++ leN 4 datas.length ++ D1) ++ (Dm ++ T ++ C) := by
      rw [F.bytes, henc, N.enc, hcut]; simp only [List.append_assoc]
    rw [e0, hm0]; simp only [List.append_assoc]
  -- remove_bytes on the buffer with the moved table
  obtain ⟨X0, hX0d⟩ : ∃ x, x = leN 4 S ++ leN 4 datas.length ++ T1 ++ (T2 ++ leN 4 datas.length ++ D1) ++ J ++ Dm ++ T := ⟨_, rfl⟩
  rw [← hX0d] at hmm
  have hX0l : X0.length = (encode t u).length := by
    rw [hEl, hX0d]; simp only [List.length_append, hJ, hM]; omega
  have hk1 : 12 + datas.length * (4 + kw) + so - (4 + kw) * (hi - lo)
      = (leN 4 S ++ leN 4 datas.length ++ T1 ++ (T2 ++ leN 4 datas.length ++ D1)).length := by
    simp only [List.length_append, leN_length, hT1, hT2, hD1]; omega
  obtain ⟨bs1, hbs1⟩ : ∃ x, x = memmove m.bytes (offsetOf s v p + 8 + lo * (4 + kw)) (offsetOf s v p + 8 + hi * (4 + kw))
      (offsetOf s v p + 8 + datas.length * (4 + kw) + 4 + so - (offsetOf s v p + 8 + hi * (4 + kw))) := ⟨_, rfl⟩
  rw [← hbs1] at hmm
  obtain ⟨m1, hrem, hb1, ho1, hrf1, hg1⟩ := shrink_plug F.good F.res ({ m with bytes := bs1 } : Mem)
    X0 hX0l hmm (12 + datas.length * (4 + kw) + so - (4 + kw) * (hi - lo)) (12 + datas.length * (4 + kw) + eo)
    (by omega) (by rw [hX0l]; omega)
  have hX1 : X0.take (12 + datas.length * (4 + kw) + so - (4 + kw) * (hi - lo)) ++ X0.drop (12 + datas.length * (4 + kw) + eo)
      = leN 4 S ++ leN 4 datas.length ++ T1 ++ T2 ++ leN 4 datas.length ++ D1 ++ T := by
    have ht : X0 = (leN 4 S ++ leN 4 datas.length ++ T1 ++ (T2 ++ leN 4 datas.length ++ D1)) ++ (J ++ Dm ++ T) := by
      rw [hX0d]; simp only [List.append_assoc]
    have hd : X0 = (leN 4 S ++ leN 4 datas.length ++ T1 ++ (T2 ++ leN 4 datas.length ++ D1) ++ J ++ Dm) ++ T := by
      rw [hX0d]
    rw [hk1]
    conv => lhs; arg 1; rw [ht]
    conv => lhs; arg 2; rw [hd]
    rw [take_append_len _ _ _ rfl, drop_append_len _ _ _ (by
      simp only [List.length_append, leN_length, hT1, hT2, hD1, hJ]; omega)]
    simp only [List.append_assoc]
  rw [hX1] at hb1
  refine ⟨{ m1 with bytes := plug s v p (uBytes (Spec.removeRange keys lo hi) (Spec.removeRange datas lo hi)) }, ?_,
    rfl, ho1, hrf1, hg1⟩
  apply ulistRemoveRange_of_tail _ _ _ _ _ _ _ _ bs1 (by rw [hr2]; exact hnc) (by omega) (by rw [hr2]; omega) (by rw [hr2, hso]; exact hbs1)
  · rw [hr2, hso, heo]
    have hp1 : offsetOf s v p + 8 + datas.length * (4 + kw) + 4 + so - (4 + kw) * (hi - lo)
        = offsetOf s v p + (12 + datas.length * (4 + kw) + so - (4 + kw) * (hi - lo)) := by omega
    have hp2 : offsetOf s v p + 8 + datas.length * (4 + kw) + 4 + eo
        = offsetOf s v p + (12 + datas.length * (4 + kw) + eo) := by omega
    rw [hp1, hp2]; exact hrem
  · rw [hr2, hso, heo, hb1]
    obtain ⟨C', hC'⟩ := plug_decomp p s v t u F.good F.res
    obtain ⟨A', hA', hAX'⟩ := hC' (leN 4 S ++ leN 4 datas.length ++ T1 ++ T2 ++ leN 4 datas.length ++ D1 ++ T).length
    rw [hAX' _ rfl]
    have e1 : A' ++ (leN 4 S ++ leN 4 datas.length ++ T1 ++ T2 ++ leN 4 datas.length ++ D1 ++ T) ++ C'
        = A' ++ leN 4 S ++ leN 4 datas.length ++ T1 ++ T2 ++ leN 4 datas.length ++ D1 ++ T ++ C' := by
      simp only [List.append_assoc]
    rw [e1, hT2d, uRemTail_generic kw A' T1 (o.drop hi) (keys.drop hi) D1 T C' (offsetOf s v p) lo (hi - lo)
      datas.length S (eo - so) hA'.symm hT1 ho2l (by simp [hol]; omega) (by omega)
      (fun k hk => N.kw k (List.mem_of_mem_drop hk)) (by omega)
      (fun x hx => ⟨by have := hoge x hx; omega, by have := hole x (List.mem_of_mem_drop hx); omega⟩)]
    have hfin := uBytes_remove keys datas N.len lo hi hlo hhi
    rw [← hS, ← ho, ← hsod, ← heod, ← hT1d, ← hD1d, ← hTd] at hfin
    have hT2' : (tbl ((o.drop hi).map (applyDelta true (eo - so))) (keys.drop hi)).length
        = (datas.length - hi) * (4 + kw) := by
      rw [tbl_length kw _ _ (by simpa using ho2l) (fun k hk => N.kw k (List.mem_of_mem_drop hk))]
      simp [hol]
    rw [hAX' _ (by
      rw [← hfin]; simp only [List.length_append, leN_length, hT2, hT2'])]
    rw [← hfin]
    simp only [List.append_assoc]


/-! ## The operations under `Calm` (no refusal, headroom): outcome + resulting bytes -/

theorem Calm.lt {m : Mem} (c : Calm m) : m.bytes.length < Shape.u32Lim := by
  have := c.small; have := c.fitsNow; omega

/-- `insert_all_with_offsets` with an index beyond the end: `IndexOutOfBounds`, nothing touched. -/
theorem ulistInsert_ioob {s v p t u m kw keys datas} (F : Focus s v p t u m) (N : UNode t u kw keys datas)
    (hsm : m.bytes.length < Shape.u32Lim) (e : Shape) (idx n : Nat) (init : Init) (key : List Nat)
    (h : datas.length < idx) :
    ulistInsert ⟨s, p⟩ (4 + kw) e (offsetOf s v p) idx n init key m = (m, .error .ioob) := by
  obtain ⟨_, hr2, _⟩ := u_reads F N hsm
  unfold ulistInsert
  simp only [hr2, h, if_true]

/-- **`insert_all_with_offsets`** on the node at `p` when the growth fits. -/
theorem ulistInsert_bytes {s v p t u m kw keys datas} (F : Focus s v p t u m) (c : Calm m)
    (N : UNode t u kw keys datas) (e : Shape) (idx n : Nat) (init : Init) (key : List Nat)
    (hidx : idx ≤ datas.length) (hkey : key.length = kw) (hsz : (initBytes e init).length = initSize e init)
    (hf : initFails e init = false)
    (hroom : (encode s v).length + (initSize e init + (4 + kw)) * n ≤ m.orig + maxIncrease) :
    ∃ m1 : Mem, ulistInsert ⟨s, p⟩ (4 + kw) e (offsetOf s v p) idx n init key m = (m1, .ok ())
      ∧ m1.bytes = plug s v p (uBytes (Spec.insertAt keys idx (List.replicate n key))
            (Spec.insertAt datas idx (List.replicate n (initBytes e init))))
      ∧ m1.orig = m.orig ∧ m1.refuse = m.refuse := by
  have hoffle : ((datas.map List.length).take idx).sum ≤ (datas.map List.length).sum := sum_take_le _ _
  obtain ⟨G, m1, _, hG, hadd, hb1, ho1, hr1⟩ := F.grow c
    (12 + datas.length * (4 + kw) + ((datas.map List.length).take idx).sum) ((initSize e init + (4 + kw)) * n)
    (by rw [N.size]; omega) hroom
  have := ulistInsert_grown F N e idx n init key hidx hkey hsz hf G m1 hG hadd hb1 (by have := c.small; omega)
  exact ⟨_, this, rfl, ho1, hr1⟩

/-- `remove_range` with a reversed range. -/
theorem ulistRemoveRange_range {s v p t u m kw keys datas} (F : Focus s v p t u m) (N : UNode t u kw keys datas)
    (hsm : m.bytes.length < Shape.u32Lim) (lo hi : Nat) (h : hi < lo) :
    ulistRemoveRange ⟨s, p⟩ (4 + kw) (offsetOf s v p) lo hi m = (m, .error .range) := by
  obtain ⟨_, hr2, _⟩ := u_reads F N hsm
  unfold ulistRemoveRange
  have h0 : ¬ (lo = 0 ∧ hi = datas.length) := by omega
  simp only [hr2, h0, h, if_true, if_false]

/-- `remove_range` beyond the end. -/
theorem ulistRemoveRange_ioob {s v p t u m kw keys datas} (F : Focus s v p t u m) (N : UNode t u kw keys datas)
    (hsm : m.bytes.length < Shape.u32Lim) (lo hi : Nat) (h1 : ¬ hi < lo) (h : datas.length < hi) :
    ulistRemoveRange ⟨s, p⟩ (4 + kw) (offsetOf s v p) lo hi m = (m, .error .ioob) := by
  obtain ⟨_, hr2, _⟩ := u_reads F N hsm
  unfold ulistRemoveRange
  have h0 : ¬ (lo = 0 ∧ hi = datas.length) := by omega
  simp only [hr2, h0, h1, h, if_true, if_false]

/-- **`remove_range(lo..hi)`**, including the `clear` shortcut for the full range. -/
theorem ulistRemoveRange_all_bytes {s v p t u m kw keys datas} (F : Focus s v p t u m)
    (N : UNode t u kw keys datas) (hsm : m.bytes.length < Shape.u32Lim) (lo hi : Nat) (hlo : lo ≤ hi)
    (hhi : hi ≤ datas.length) :
    ∃ m1 : Mem, ulistRemoveRange ⟨s, p⟩ (4 + kw) (offsetOf s v p) lo hi m = (m1, .ok ())
      ∧ m1.bytes = plug s v p (uBytes (Spec.removeRange keys lo hi) (Spec.removeRange datas lo hi))
      ∧ m1.orig = m.orig ∧ m1.refuse = m.refuse ∧ m1.grows = m.grows := by
  by_cases hc : lo = 0 ∧ hi = datas.length
  · obtain ⟨m1, hm1, hb1, hrest⟩ := ulistClear_bytes F N hsm
    obtain ⟨_, hr2, _⟩ := u_reads F N hsm
    refine ⟨m1, ?_, ?_, hrest⟩
    · unfold ulistRemoveRange
      simp only [hr2, hc, and_self, if_true]
      have := hc.2; subst this
      exact hm1
    · have h1 : Spec.removeRange keys lo hi = [] := by
        rw [hc.1, hc.2, ← N.len]; simp [Spec.removeRange]
      have h2 : Spec.removeRange datas lo hi = [] := by
        rw [hc.1, hc.2]; simp [Spec.removeRange]
      rw [h1, h2]; exact hb1
  · exact ulistRemoveRange_bytes F N hsm lo hi hlo hhi hc


/-! ## Lengths of the results -/

theorem uBytes_insert_length (kw : Nat) (keys datas : List (List Nat)) (hl : keys.length = datas.length)
    (hk : ∀ k ∈ keys, k.length = kw) (idx n : Nat) (key img : List Nat)
    (hkey : key.length = kw) :
    (uBytes (Spec.insertAt keys idx (List.replicate n key)) (Spec.insertAt datas idx (List.replicate n img))).length
      = (uBytes keys datas).length + (img.length + (4 + kw)) * n := by
  have hl' : (Spec.insertAt keys idx (List.replicate n key)).length
      = (Spec.insertAt datas idx (List.replicate n img)).length := by
    simp [Spec.insertAt, hl]
  have hk' : ∀ k ∈ Spec.insertAt keys idx (List.replicate n key), k.length = kw := by
    intro k hk'
    simp only [Spec.insertAt, List.mem_append] at hk'
    rcases hk' with (h | h) | h
    · exact hk k (List.mem_of_mem_take h)
    · rw [(List.mem_replicate.1 h).2]; exact hkey
    · exact hk k (List.mem_of_mem_drop h)
  rw [uBytes_length kw _ _ hl' hk', uBytes_length kw keys datas hl hk]
  have hlen : (Spec.insertAt datas idx (List.replicate n img)).length = datas.length + n := by
    simp [Spec.insertAt]; omega
  have hsum : ((Spec.insertAt datas idx (List.replicate n img)).map List.length).sum
      = (datas.map List.length).sum + n * img.length := by
    have := sum_take_add_drop (datas.map List.length) idx
    simp only [Spec.insertAt, List.map_append, List.sum_append, List.map_replicate, sum_replicate', List.map_take,
      List.map_drop]
    omega
  rw [hlen, hsum, Nat.add_mul, Nat.add_mul, Nat.mul_comm img.length n, Nat.mul_comm (4 + kw) n]
  omega

theorem uBytes_remove_length_le (kw : Nat) (keys datas : List (List Nat)) (hl : keys.length = datas.length)
    (hk : ∀ k ∈ keys, k.length = kw) (lo hi : Nat) (hlo : lo ≤ hi) :
    (uBytes (Spec.removeRange keys lo hi) (Spec.removeRange datas lo hi)).length ≤ (uBytes keys datas).length := by
  have hl' : (Spec.removeRange keys lo hi).length = (Spec.removeRange datas lo hi).length := by
    simp [Spec.removeRange, hl]
  have hk' : ∀ k ∈ Spec.removeRange keys lo hi, k.length = kw := by
    intro k hk'
    simp only [Spec.removeRange, List.mem_append] at hk'
    rcases hk' with h | h
    · exact hk k (List.mem_of_mem_take h)
    · exact hk k (List.mem_of_mem_drop h)
  rw [uBytes_length kw _ _ hl' hk', uBytes_length kw keys datas hl hk]
  have hlen : (Spec.removeRange datas lo hi).length ≤ datas.length := by
    simp [Spec.removeRange]; omega
  have hsum : ((Spec.removeRange datas lo hi).map List.length).sum ≤ (datas.map List.length).sum := by
    have h1 := sum_take_add_drop (datas.map List.length) hi
    have h2 := sum_take_mono (datas.map List.length) lo hi hlo
    simp only [Spec.removeRange, List.map_append, List.sum_append, List.map_take, List.map_drop]
    omega
  have := Nat.mul_le_mul_right (4 + kw) hlen
  omega

/-! ## The `UnsizedList` node -/

theorem map_insertAt {α β : Type} (f : α → β) (l : List α) (i : Nat) (xs : List α) :
    (Spec.insertAt l i xs).map f = Spec.insertAt (l.map f) i (xs.map f) := by
  simp [Spec.insertAt, List.map_take, List.map_drop]

theorem map_removeRange {α β : Type} (f : α → β) (l : List α) (lo hi : Nat) :
    (Spec.removeRange l lo hi).map f = Spec.removeRange (l.map f) lo hi := by
  simp [Spec.removeRange, List.map_take, List.map_drop]

theorem unode_ulist (e : Shape) (vs : List Val) :
    UNode (.ulist e) (.useq vs) 0 (vs.map fun _ => []) (vs.map (encode e)) :=
  ⟨encode_ulist_uBytes e vs, by simp, by intro k hk; obtain ⟨_, _, rfl⟩ := List.mem_map.1 hk; rfl⟩

theorem ulist_elem_ok {e : Shape} (h : OkS (.ulist e)) : Shape.okAux false false e = true ∧ e.zst = false := by
  obtain ⟨top, ie, hok⟩ := h
  simp only [Shape.okAux, Bool.and_eq_true, Bool.not_eq_true'] at hok
  exact hok

theorem good_ulist_of {e : Shape} {vs : List Val} (hok : OkS (.ulist e)) (hv : ∀ x ∈ vs, valid e x = true)
    (hf : ∀ x ∈ vs, fits e x = true)
    (hsz : (encode (.ulist e) (.useq vs)).length < Shape.u32Lim) : Good (.ulist e) (.useq vs) := by
  have hva : vs.all (valid e) = true := List.all_eq_true.2 hv
  rw [(unode_ulist e vs).size, map_encode_length e vs hva] at hsz
  have hLle : vs.length ≤ vs.length * (4 + 0) := Nat.le_mul_of_pos_right _ (by omega)
  simp only [List.length_map] at hsz
  refine ⟨hok, by simpa [valid] using hva, ?_⟩
  simp only [fits, Bool.and_eq_true, decide_eq_true_eq, List.all_eq_true]
  exact ⟨⟨by omega, by omega⟩, hf⟩

theorem good_ulist_mem {e : Shape} {vs : List Val} (g : Good (.ulist e) (.useq vs)) :
    (∀ x ∈ vs, valid e x = true) ∧ (∀ x ∈ vs, fits e x = true) := by
  obtain ⟨_, hv, hf⟩ := g
  simp only [valid, List.all_eq_true] at hv
  simp only [fits, Bool.and_eq_true, List.all_eq_true] at hf
  exact ⟨hv, hf.2⟩

theorem okPayloads_head (p : Shape) (ps : List Shape) (h : Shape.okPayloads (p :: ps) = true) :
    Shape.okAux false true p = true := by
  simp only [Shape.okPayloads, Bool.and_eq_true] at h; exact h.1

theorem initOkDefault_of (fs : List Shape)
    (ih : ∀ f ∈ fs, ∀ ie, Shape.okAux false ie f = true → initOk f .default = true)
    (hok : Shape.okFields fs = true) : initOkDefault fs = true := by
  induction fs with
  | nil => rfl
  | cons f fs ihf =>
    simp only [initOkDefault, Bool.and_eq_true]
    cases fs with
    | nil =>
      simp only [Shape.okFields] at hok
      exact ⟨ih f List.mem_cons_self false hok, rfl⟩
    | cons g gs =>
      obtain ⟨h1, _, h3⟩ := okFields_cons2 f g gs hok
      exact ⟨ih f List.mem_cons_self false h1, ihf (fun x hx => ih x (List.mem_cons_of_mem _ hx)) h3⟩

/-- Every shape that can be an element has a `DefaultInit`. -/
theorem initOk_default (s : Shape) : ∀ ie, Shape.okAux false ie s = true → initOk s .default = true := by
  induction s using Shape.induct' with
  | fixed f => intro _ _; simp [initOk, initOkFixed]
  | list e lw => intro _ _; simp [initOk]
  | set e lw => intro _ _; simp [initOk]
  | map kw vv lw => intro _ _; simp [initOk]
  | str lw => intro _ _; simp [initOk]
  | rem => intro _ _; simp [initOk]
  | ulist e ih => intro _ _; simp [initOk]
  | umap kw e ih => intro _ _; simp [initOk]
  | struct sized fs ih =>
    intro ie hok
    simp only [Shape.okAux, Bool.and_eq_true] at hok
    simp only [initOk]
    exact initOkDefault_of fs ih hok.2
  | enum ds ps ih =>
    intro ie hok
    simp only [Shape.okAux, Bool.and_eq_true, beq_iff_eq] at hok
    cases ds with
    | nil => simp at hok
    | cons d ds =>
      cases ps with
      | nil => simp at hok
      | cons p ps =>
        simp only [initOk]
        exact ih p List.mem_cons_self true (okPayloads_head p ps hok.2)
  | unit => intro _ _; simp [initOk]
  | disc d inner ih => intro ie hok; simp [Shape.okAux] at hok

/-- `insert_all_with_offsets` of `n` copies of an initialiser on an `UnsizedList` node. -/
theorem ulist_insert_refines {s v p m} {e : Shape} {vs : List Val} (F : Focus s v p (.ulist e) (.useq vs) m)
    (c : Calm m) (i n : Nat) (init : Init) (hio : initOk e init = true) (hf : initFails e init = false) :
    (vs.length < i → ulistInsert ⟨s, p⟩ 4 e (offsetOf s v p) i n init [] m = (m, .error .ioob))
    ∧ (¬ vs.length < i → fits e (denote e init) = true →
        (plug s v p (encode (.ulist e) (.useq (Spec.insertAt vs i (List.replicate n (denote e init)))))).length
          ≤ m.orig + maxIncrease →
        ∃ m', ulistInsert ⟨s, p⟩ 4 e (offsetOf s v p) i n init [] m = (m', .ok ())
          ∧ Focus s (subst s v p (.useq (Spec.insertAt vs i (List.replicate n (denote e init))))) p (.ulist e)
              (.useq (Spec.insertAt vs i (List.replicate n (denote e init)))) m'
          ∧ m'.orig = m.orig ∧ m'.refuse = m.refuse) := by
  have N := unode_ulist e vs
  constructor
  · intro h
    have := ulistInsert_ioob F N c.lt e i n init [] (by simpa using h)
    simpa only [Nat.add_zero] using this
  · intro hi hfit hroom
    obtain ⟨hoke, _⟩ := ulist_elem_ok F.sub.ok
    obtain ⟨hx, hsize, hval⟩ := initP_all e init hio
    have hvx := hval false false hoke
    have hsz : (initBytes e init).length = initSize e init := by
      rw [hx, hsize]; exact encode_size_all e _ hvx
    have henc' : encode (.ulist e) (.useq (Spec.insertAt vs i (List.replicate n (denote e init))))
        = uBytes (Spec.insertAt (vs.map fun _ => ([] : List Nat)) i (List.replicate n []))
            (Spec.insertAt (vs.map (encode e)) i (List.replicate n (initBytes e init))) := by
      rw [encode_ulist_uBytes, map_insertAt, map_insertAt, List.map_replicate, List.map_replicate, hx]
    have hlen' := uBytes_insert_length 0 _ _ N.len N.kw i n [] (initBytes e init) rfl
    rw [← henc', ← N.enc, hsz] at hlen'
    have hpl := plug_length p s v _ _ F.good F.res
      (encode (.ulist e) (.useq (Spec.insertAt vs i (List.replicate n (denote e init)))))
    have hle := offsetOf_le p s v _ _ F.good F.res
    obtain ⟨m1, hm1, hb1, ho1, hr1⟩ := ulistInsert_bytes F c N e i n init [] (by simpa using Nat.le_of_not_lt hi) rfl
      hsz hf (by omega)
    simp only [Nat.add_zero] at hm1
    rw [← henc'] at hb1
    have hsm := F.small c _ hroom
    obtain ⟨hvs, hfs⟩ := good_ulist_mem F.sub
    have g' : Good (.ulist e) (.useq (Spec.insertAt vs i (List.replicate n (denote e init)))) := by
      apply good_ulist_of F.sub.ok
      · intro y hy
        simp only [Spec.insertAt, List.mem_append] at hy
        rcases hy with (h | h) | h
        · exact hvs y (List.mem_of_mem_take h)
        · rw [(List.mem_replicate.1 h).2]; exact hvx
        · exact hvs y (List.mem_of_mem_drop h)
      · intro y hy
        simp only [Spec.insertAt, List.mem_append] at hy
        rcases hy with (h | h) | h
        · exact hfs y (List.mem_of_mem_take h)
        · rw [(List.mem_replicate.1 h).2]; exact hfit
        · exact hfs y (List.mem_of_mem_drop h)
      · omega
    exact ⟨m1, hm1, F.finish _ g' m1 hb1 (by rw [hb1]; exact hsm), ho1, hr1⟩

/-- `remove_range` on an `UnsizedList` node. -/
theorem ulist_removeRange_refines {s v p m} {e : Shape} {vs : List Val} (F : Focus s v p (.ulist e) (.useq vs) m)
    (c : Calm m) (lo hi : Nat) :
    (hi < lo → ulistRemoveRange ⟨s, p⟩ 4 (offsetOf s v p) lo hi m = (m, .error .range))
    ∧ (¬ hi < lo → vs.length < hi → ulistRemoveRange ⟨s, p⟩ 4 (offsetOf s v p) lo hi m = (m, .error .ioob))
    ∧ (¬ hi < lo → ¬ vs.length < hi →
        ∃ m', ulistRemoveRange ⟨s, p⟩ 4 (offsetOf s v p) lo hi m = (m', .ok ())
          ∧ Focus s (subst s v p (.useq (Spec.removeRange vs lo hi))) p (.ulist e) (.useq (Spec.removeRange vs lo hi)) m'
          ∧ m'.orig = m.orig ∧ m'.refuse = m.refuse) := by
  have N := unode_ulist e vs
  refine ⟨fun h => ?_, fun h1 h2 => ?_, fun h1 h2 => ?_⟩
  · have := ulistRemoveRange_range F N c.lt lo hi h
    simpa only [Nat.add_zero] using this
  · have := ulistRemoveRange_ioob F N c.lt lo hi h1 (by simpa using h2)
    simpa only [Nat.add_zero] using this
  · obtain ⟨m1, hm1, hb1, ho1, hr1, _⟩ := ulistRemoveRange_all_bytes F N c.lt lo hi (by omega) (by simpa using Nat.le_of_not_lt h2)
    simp only [Nat.add_zero] at hm1
    have henc' : encode (.ulist e) (.useq (Spec.removeRange vs lo hi))
        = uBytes (Spec.removeRange (vs.map fun _ => ([] : List Nat)) lo hi) (Spec.removeRange (vs.map (encode e)) lo hi) := by
      rw [encode_ulist_uBytes, map_removeRange, map_removeRange]
    rw [← henc'] at hb1
    have hlen' := uBytes_remove_length_le 0 _ _ N.len N.kw lo hi (by omega)
    rw [← henc', ← N.enc] at hlen'
    have hpl := plug_length p s v _ _ F.good F.res (encode (.ulist e) (.useq (Spec.removeRange vs lo hi)))
    have hle := offsetOf_le p s v _ _ F.good F.res
    have hlt := c.lt
    rw [F.bytes] at hlt
    obtain ⟨hvs, hfs⟩ := good_ulist_mem F.sub
    have g' : Good (.ulist e) (.useq (Spec.removeRange vs lo hi)) := by
      apply good_ulist_of F.sub.ok
      · intro y hy
        simp only [Spec.removeRange, List.mem_append] at hy
        rcases hy with h | h
        · exact hvs y (List.mem_of_mem_take h)
        · exact hvs y (List.mem_of_mem_drop h)
      · intro y hy
        simp only [Spec.removeRange, List.mem_append] at hy
        rcases hy with h | h
        · exact hfs y (List.mem_of_mem_take h)
        · exact hfs y (List.mem_of_mem_drop h)
      · omega
    exact ⟨m1, hm1, F.finish _ g' m1 hb1 (by rw [hb1]; omega), ho1, hr1⟩


theorem ulist_rdlen {s v p m} {e : Shape} {vs : List Val} (F : Focus s v p (.ulist e) (.useq vs) m) (c : Calm m) :
    rd32 m.bytes (offsetOf s v p + 4) = vs.length := by
  have := (u_reads F (unode_ulist e vs) c.lt).2.1
  simpa using this

theorem initFails_default (e : Shape) : initFails e .default = false := by
  cases e <;> rfl

/-- **Every op on an `UnsizedList` node** except `uget` (whose `ret` needs the codec's view lemma; see
`MachineNodeUget`). `uinsert_arr` with a failing initialiser is the known finding (`Err.initFail`, nothing
claimed). -/
theorem ulist_refines {s v p m} {e : Shape} {vs : List Val} (F : Focus s v p (.ulist e) (.useq vs) m)
    (c : Calm m) (op : Op) (hop : ∀ i, op ≠ .uget i) : Refines s v p (.ulist e) (.useq vs) m op := by
  have hrd := ulist_rdlen F c
  obtain ⟨hoke, _⟩ := ulist_elem_ok F.sub.ok
  cases op with
  | touch => exact touch_refines F
  | replace nv => exact replace_refines F c nv
  | reset => exact reset_refines F c
  | uget i => exact absurd rfl (hop i)
  | uinsert i n =>
    unfold Refines
    simp only [Spec.applyNode, applyAt]
    obtain ⟨h1, h2⟩ := ulist_insert_refines F c i n .default (initOk_default e false hoke) (initFails_default e)
    by_cases hi : vs.length < i
    · simp only [hi, if_true]; rw [h1 hi, unitRes_err]; exact Or.inr rfl
    · simp only [hi, if_false]
      intro hroom
      obtain ⟨m', hm', F', ho, hr⟩ := h2 hi (fits_default e) hroom
      exact ⟨m', by rw [hm', unitRes_ok], F', ho, hr⟩
  | uinsertArr i xs =>
    unfold Refines
    simp only [Spec.applyNode, applyAt]
    by_cases ha : arrOk e xs = true
    · simp only [ha, if_true]
      by_cases hi : vs.length < i
      · simp only [hi, if_true]
        have N := unode_ulist e vs
        have := ulistInsert_ioob F N c.lt e i 1 (.array xs) [] (by simpa using hi)
        simp only [Nat.add_zero] at this
        rw [this, unitRes_err]; exact Or.inr rfl
      · simp only [hi, if_false]
        by_cases hfl : initFails e (.array xs) = true
        · simp only [hfl, if_true]
        · simp only [hfl, Bool.false_eq_true, if_false]
          have hfl' : initFails e (.array xs) = false := by simpa using hfl
          -- the element shape is a `List`
          cases e with
          | list ee lw =>
            simp only [arrOk] at ha
            simp only [Bool.and_eq_true] at ha
            have hio : initOk (.list ee lw) (.array xs) = true := by
              simpa [initOk, validE] using ha.2
            obtain ⟨_, h2⟩ := ulist_insert_refines F c i 1 (.array xs) hio hfl'
            intro hroom
            have hroom' : (plug s v p (encode (.ulist (.list ee lw))
                (.useq (Spec.insertAt vs i (List.replicate 1 (denote (.list ee lw) (.array xs))))))).length
                ≤ m.orig + maxIncrease := by simpa using hroom
            -- the new element fits: its count is below the prefix limit, its bytes are inside the buffer
            have hfit : fits (.list ee lw) (denote (.list ee lw) (.array xs)) = true := by
              simp only [initFails, decide_eq_false_iff_not] at hfl'
              simp only [denote, fits, Bool.and_eq_true, decide_eq_true_eq]
              refine ⟨by omega, ?_⟩
              have hsmall := F.small c _ hroom'
              have hpl := plug_length p s v _ _ F.good F.res (encode (.ulist (.list ee lw))
                (.useq (Spec.insertAt vs i (List.replicate 1 (denote (.list ee lw) (.array xs))))))
              have hle := offsetOf_le p s v _ _ F.good F.res
              have hlen' := uBytes_insert_length 0 _ _ (unode_ulist (.list ee lw) vs).len (unode_ulist (.list ee lw) vs).kw
                i 1 [] (encode (.list ee lw) (.seq xs)) rfl
              have henc' : encode (.ulist (.list ee lw)) (.useq (Spec.insertAt vs i (List.replicate 1 (denote (.list ee lw) (.array xs)))))
                  = uBytes (Spec.insertAt (vs.map fun _ => ([] : List Nat)) i (List.replicate 1 []))
                      (Spec.insertAt (vs.map (encode (.list ee lw))) i (List.replicate 1 (encode (.list ee lw) (.seq xs)))) := by
                rw [encode_ulist_uBytes, map_insertAt, map_insertAt, List.map_replicate, List.map_replicate]; rfl
              rw [← henc'] at hlen'
              have hxl : (encode (.list ee lw) (.seq xs)).length = lw + xs.length * ee.size := by
                rw [list_enc, List.length_append, leN_length, flatten_width ee.size xs (fun x hx => by
                  have := List.all_eq_true.1 ha.2 x hx; exact validE_len this)]
              have := u32_lt_usize
              rw [hxl, Nat.mul_comm xs.length] at hlen'
              omega
            obtain ⟨m', hm', F', ho, hr⟩ := h2 hi hfit hroom'
            simp only [List.replicate_one] at F'
            exact ⟨m', by rw [hm', unitRes_ok], F', ho, hr⟩
          | _ => simp only [arrOk, Bool.false_eq_true] at ha
    · simp [ha]
  | remove i =>
    unfold Refines
    simp only [Spec.applyNode, applyAt]
    obtain ⟨_, h2, h3⟩ := ulist_removeRange_refines F c i (i + 1)
    by_cases hi : vs.length < i + 1
    · simp only [hi, if_true]; rw [h2 (by omega) hi, unitRes_err]; exact Or.inr rfl
    · simp only [hi, if_false]
      intro _
      obtain ⟨m', hm', F', ho, hr⟩ := h3 (by omega) hi
      exact ⟨m', by rw [hm', unitRes_ok], F', ho, hr⟩
  | removeRange lo hi =>
    unfold Refines
    simp only [Spec.applyNode, applyAt]
    obtain ⟨h1, h2, h3⟩ := ulist_removeRange_refines F c lo hi
    by_cases hc : lo = 0 ∧ hi = vs.length
    · simp only [hc, and_self, if_true]
      intro _
      obtain ⟨m', hm', F', ho, hr⟩ := h3 (by omega) (by omega)
      rw [hc.1, hc.2, removeRange_all] at F'
      rw [hc.1, hc.2] at hm'
      exact ⟨m', by rw [hm', unitRes_ok], F', ho, hr⟩
    · simp only [hc, if_false]
      by_cases hr1 : hi < lo
      · simp only [hr1, if_true]; rw [h1 hr1, unitRes_err]; exact Or.inr rfl
      · simp only [hr1, if_false]
        by_cases hr2 : vs.length < hi
        · simp only [hr2, if_true]; rw [h2 hr1 hr2, unitRes_err]; exact Or.inr rfl
        · simp only [hr2, if_false]
          intro _
          obtain ⟨m', hm', F', ho, hr⟩ := h3 hr1 hr2
          exact ⟨m', by rw [hm', unitRes_ok], F', ho, hr⟩
  | pop =>
    unfold Refines
    simp only [Spec.applyNode, applyAt, ulistPop, hrd]
    by_cases hemp : vs = []
    · subst hemp
      simp only [List.isEmpty_nil, if_true, List.length_nil]
      intro _
      exact ⟨m, rfl, F.same, rfl, rfl⟩
    · have hne : vs.isEmpty = false := by cases vs <;> simp at hemp ⊢
      have hl : vs.length ≠ 0 := by cases vs <;> simp at hemp ⊢
      simp only [hne, hl, if_false, Bool.false_eq_true]
      intro _
      obtain ⟨_, _, h3⟩ := ulist_removeRange_refines F c (vs.length - 1) vs.length
      obtain ⟨m', hm', F', ho, hr⟩ := h3 (by omega) (by omega)
      rw [removeRange_last vs hemp] at F'
      exact ⟨m', by rw [hm'], F', ho, hr⟩
  | clear =>
    unfold Refines
    simp only [Spec.applyNode, applyAt]
    intro _
    obtain ⟨_, _, h3⟩ := ulist_removeRange_refines F c 0 vs.length
    obtain ⟨m', hm', F', ho, hr⟩ := h3 (by omega) (by omega)
    rw [removeRange_all vs] at F'
    -- `remove_range(0..len)` is the `clear` shortcut
    have hcl : ulistRemoveRange ⟨s, p⟩ 4 (offsetOf s v p) 0 vs.length m = ulistClear ⟨s, p⟩ 4 (offsetOf s v p) m := by
      unfold ulistRemoveRange; simp only [hrd, and_self, if_true]
    rw [hcl] at hm'
    exact ⟨m', by rw [hm', unitRes_ok], F', ho, hr⟩
  | utouch i =>
    unfold Refines
    simp only [Spec.applyNode, applyAt, hrd]
    intro _
    exact ⟨m, rfl, F.same, rfl, rfl⟩
  | _ => unfold Refines; simp [Spec.applyNode, applyAt]

/-- Non-vacuity of the hypotheses of `ulist_refines`: an `UnsizedList<List<u8, u8>>` as a struct field. -/
example : ∃ (s : Shape) (v : Val) (p : List Step) (e : Shape) (vs : List Val) (m : Mem),
    Focus s v p (.ulist e) (.useq vs) m ∧ Calm m ∧ vs.length = 2 :=
  ⟨.struct [.pod 1] [.ulist (.list (.pod 1) 1)], .record [9] [.useq [.seq [[1], [2]], .seq []]], [.field 0],
    .list (.pod 1) 1, [.seq [[1], [2]], .seq []],
    ⟨encode (.struct [.pod 1] [.ulist (.list (.pod 1) 1)]) (.record [9] [.useq [.seq [[1], [2]], .seq []]]), 64, 0, []⟩,
    ⟨⟨⟨true, false, by decide⟩, by decide, by decide⟩, rfl, rfl⟩, ⟨rfl, by decide, by decide⟩, rfl⟩

end Unsized.Machine
