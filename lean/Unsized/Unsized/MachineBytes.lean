import Unsized.Machine
/-!
# Byte-list algebra for the resize machine: `rd` / `wr` / `rdN` on `pre ++ x ++ post`
-/
namespace Unsized.Machine
open Common Unsized

theorem take_append_len {α : Type} (a b : List α) (n : Nat) (h : n = a.length) : (a ++ b).take n = a := by
  subst h; simp

theorem drop_append_len {α : Type} (a b : List α) (n : Nat) (h : n = a.length) : (a ++ b).drop n = b := by
  subst h; simp

theorem drop_append_add {α : Type} (a b : List α) (n k : Nat) (h : n = a.length) :
    (a ++ b).drop (n + k) = b.drop k := by
  subst h
  rw [List.drop_append, List.drop_of_length_le (by omega)]
  simp

theorem take_append_add {α : Type} (a b : List α) (n k : Nat) (h : n = a.length) :
    (a ++ b).take (n + k) = a ++ b.take k := by
  subst h
  rw [List.take_append, List.take_of_length_le (by omega)]
  congr 2; omega

@[simp] theorem rd_length (bs : List Nat) (off n : Nat) (h : off + n ≤ bs.length) :
    (rd bs off n).length = n := by
  simp [rd]; omega

theorem wr_length (bs : List Nat) (off : Nat) (v : List Nat) (h : off + v.length ≤ bs.length) :
    (wr bs off v).length = bs.length := by
  simp [wr]; omega

/-- Reading inside the middle part. -/
theorem rd_mid (a x c : List Nat) (b k n : Nat) (hb : b = a.length) (h : k + n ≤ x.length) :
    rd (a ++ x ++ c) (b + k) n = rd x k n := by
  have e : a ++ x ++ c = a ++ (x ++ c) := List.append_assoc ..
  unfold rd
  rw [e, drop_append_add a _ _ _ hb, List.drop_append_of_le_length (by omega),
    List.take_append_of_le_length (by simp; omega)]

theorem rd_mid0 (a x c : List Nat) (b n : Nat) (hb : b = a.length) (h : n ≤ x.length) :
    rd (a ++ x ++ c) b n = rd x 0 n := by
  have := rd_mid a x c b 0 n hb (by omega)
  simpa using this

theorem rdN_mid (a x c : List Nat) (b k w : Nat) (hb : b = a.length) (h : k + w ≤ x.length) :
    rdN (a ++ x ++ c) (b + k) w = rdN x k w := by
  unfold rdN; rw [rd_mid a x c b k w hb h]

theorem rdN_mid0 (a x c : List Nat) (b w : Nat) (hb : b = a.length) (h : w ≤ x.length) :
    rdN (a ++ x ++ c) b w = rdN x 0 w := by
  unfold rdN; rw [rd_mid0 a x c b w hb h]

/-- Writing inside the middle part. -/
theorem wr_mid (a x c : List Nat) (b k : Nat) (w : List Nat) (hb : b = a.length)
    (h : k + w.length ≤ x.length) : wr (a ++ x ++ c) (b + k) w = a ++ wr x k w ++ c := by
  have e : a ++ x ++ c = a ++ (x ++ c) := List.append_assoc ..
  unfold wr
  rw [e, take_append_add a _ _ _ hb, List.take_append_of_le_length (by omega)]
  rw [Nat.add_assoc, drop_append_add a _ _ _ hb, List.drop_append_of_le_length (by omega)]
  simp [List.append_assoc]

theorem wr_mid0 (a x c : List Nat) (b : Nat) (w : List Nat) (hb : b = a.length)
    (h : w.length ≤ x.length) : wr (a ++ x ++ c) b w = a ++ wr x 0 w ++ c := by
  have := wr_mid a x c b 0 w hb (by omega)
  simpa using this

/-- Overwriting a prefix. -/
theorem wr_zero (x y r : List Nat) (h : x.length = y.length) : wr (x ++ r) 0 y = y ++ r := by
  unfold wr
  simp
  rw [← h]; simp

/-- Overwriting the part after a prefix. -/
theorem wr_after (p x y r : List Nat) (k : Nat) (hk : k = p.length) (h : x.length = y.length) :
    wr (p ++ x ++ r) k y = p ++ y ++ r := by
  have := wr_mid p x r k 0 y hk (by omega)
  simp only [Nat.add_zero] at this
  rw [this]
  unfold wr
  simp
  rw [← h]; simp

theorem rd_zero (x r : List Nat) (n : Nat) (h : n = x.length) : rd (x ++ r) 0 n = x := by
  subst h; simp [rd]

theorem rd_after (p x r : List Nat) (k n : Nat) (hk : k = p.length) (h : n = x.length) :
    rd (p ++ x ++ r) k n = x := by
  subst hk h; simp [rd]

theorem rdN_leN_zero (w n : Nat) (r : List Nat) (h : n < 256 ^ w) : rdN (leN w n ++ r) 0 w = n := by
  unfold rdN
  rw [rd_zero _ _ _ (by simp), rdLE_leN w n h]

theorem rdN_leN_after (p r : List Nat) (k w n : Nat) (hk : k = p.length) (h : n < 256 ^ w) :
    rdN (p ++ leN w n ++ r) k w = n := by
  unfold rdN
  rw [rd_after p _ r k w hk (by simp), rdLE_leN w n h]

end Unsized.Machine
