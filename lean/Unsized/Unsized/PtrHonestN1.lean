import Unsized.PtrHonestM13c
namespace Unsized.Ptr
open Common Unsized Unsized.Text Unsized.Machine Unsized.PtrT Unsized.PtrM

/-- `run_notify` with the world / buffer `runEvs` is called with as parameters (only its `base` and `rng`
matter: inside the snapshot `uszIn` does not look at the world). -/
theorem run_notify_amb {w : World} {x : Which} {s : Shape} {v : Val} (c : PCtx w x s v) (w0 : World) (X0 : PBuf)
    (hb0 : X0.base = (w.get x).base) (hr0 : X0.rng = (w.get x).rng) (π : List Step) (t : Shape)
    (u u' : Val) (hres : resolve s v π = .ok (t, u)) (g' : Good s (subst s v π u')) (R T : PtrTree)
    (hp : HonPath s v (w.get x).base π R T) (hT : Hon t u ((w.get x).base + offsetOf s v π) T)
    (pre post : List Ev) (neg : Bool) (amt : Nat) (snap : List Nat) (hpre : NoNotify pre) (hpost : Inert post)
    (hamt : 0 < amt) (htk : snap.take (offsetOf s v π) = (encode s v).take (offsetOf s v π))
    (hX : (encode t u').length = applyDelta neg amt (encode t u).length)
    (hneg : neg = true → amt ≤ (encode t u).length)
    (hroom : neg = false → (encode s v).length + amt ≤ (w.get x).mem.orig + maxIncrease) :
    ∃ R2 T', runEvs w0 X0 R (pre ++ Ev.notify (offsetOf s v π) neg amt snap :: post) = .ok R2
      ∧ HonPath s (subst s v π u') (w.get x).base π R2 T'
      ∧ resizeNotify (uszIn w0 (w.get x).base snap) ((w.get x).base + offsetOf s v π) neg amt T = some T' := by
  have gt : Good t u := (Focus.sub ⟨c.good, hres, c.bytes⟩)
  have hle := offsetOf_le π s v t u c.good hres
  have hlen := c.calm.fitsNow
  rw [c.bytes] at hlen
  have hbig := c.big
  have hfar := c.far
  have hst : size t u = (encode t u).length := (encode_size_all _ _ gt.valid).symm
  obtain ⟨top, ie, hokt⟩ := gt.ok
  obtain ⟨T', hT'⟩ := hon_self t top ie hokt u gt.valid ((w.get x).base + offsetOf s v π)
    ((w.get x).base + (encode s v).length) (uszIn w0 (w.get x).base snap) neg amt T
    (fun hn => by have := hneg hn; omega) (by omega)
    (fun hn => by have := hroom hn; omega) hT
  obtain ⟨R2, hr1, hr2⟩ := notify_path π s v t u u' c.good g' hres (List.replicate (w.get x).base 0) (w.get x).base
    ((w.get x).base + offsetOf s v π) neg amt R T T' (by simp) hX hneg rfl
    (by cases neg with
        | false => have := hroom rfl; omega
        | true => have := hneg rfl; omega)
    (uszIn w0 (w.get x).base snap)
    (usz_agree w0 (w.get x).base snap (encode s v) (offsetOf s v π) (by omega) htk) hp hT'
  refine ⟨R2, T', ?_, hr2, hT'⟩
  have hc := checkTop_hon c R (honPath_fill π s v t u _ R T c.good hres hp hT)
  rw [← hr0] at hc
  exact runEvs_one w0 X0 R R2 pre post _ neg amt snap hpre hpost hc (by rw [hb0]; exact hr1)

/-- The events of ONE resize step of an op on a single-address node (`Set`, `Map`, `UnsizedString`, `List`, …),
whatever traced call produced them: if they are `ESpec` and the data afterwards is the canonical encoding of
the value with the node replaced by `u'`, `runEvs` turns the chain of the old value into the chain of the new
one (the node's own pointer does not move). -/
theorem run_trace {w : World} {x : Which} {s : Shape} {v : Val} (c : PCtx w x s v) (w0 : World) (X0 : PBuf)
    (hb0 : X0.base = (w.get x).base) (hr0 : X0.rng = (w.get x).rng) (π : List Step) (t : Shape)
    (u u' : Val) (hres : resolve s v π = .ok (t, u)) (hl : leafy t = true) (g' : Good s (subst s v π u'))
    (R T : PtrTree) (hp : HonPath s v (w.get x).base π R T) (hT : Hon t u ((w.get x).base + offsetOf s v π) T)
    (evs : List Ev) (hesp : ESpec (w.get x).mem (offsetOf s v π) evs)
    (hlen : (encode s (subst s v π u')).length = lenAfter (w.get x).mem.bytes.length evs)
    (hroom : (encode s (subst s v π u')).length ≤ (w.get x).mem.orig + maxIncrease) :
    ∃ R2, runEvs w0 X0 R evs = .ok R2 ∧ HonPath s (subst s v π u') (w.get x).base π R2 T := by
  have gt : Good t u := (Focus.sub ⟨c.good, hres, c.bytes⟩)
  have hr2 := resolve_subst π s v t u u' hres
  have gt' : Good t u' := (Focus.sub (m := ⟨encode s (subst s v π u'), 0, 0, []⟩) ⟨g', hr2, rfl⟩)
  have hst : size t u = (encode t u).length := (encode_size_all _ _ gt.valid).symm
  have hst' : size t u' = (encode t u').length := (encode_size_all _ _ gt'.valid).symm
  have hpl := plug_length π s v t u c.good hres (encode t u')
  have henc' : encode s (subst s v π u') = plug s v π (encode t u') := subst_encode π s v t u u' c.good hres
  have hle := offsetOf_le π s v t u c.good hres
  have hroot : checkTop X0.rng R = true := by
    rw [hr0]; exact checkTop_hon c R (honPath_fill π s v t u _ R T c.good hres hp hT)
  rw [henc'] at hlen hroom
  rcases hesp with ⟨hn, hl0⟩ | ⟨neg, amt, pre, snap, post, hev, h1, h2, h3, h4, h5, h6⟩
  · refine ⟨R, runEvs_noNotify w0 X0 R _ hn hroot, ?_⟩
    rw [hl0, c.bytes] at hlen
    exact honPath_same π s v t u u' _ R T c.good g' hres (by omega) hp
  · rw [h6, c.bytes] at hlen
    have hX : (encode t u').length = applyDelta neg amt (encode t u).length := by
      cases neg with
      | false => simp only [applyDelta, Bool.false_eq_true, if_false] at hlen ⊢; omega
      | true =>
        have := h4 rfl; rw [c.bytes] at this
        simp only [applyDelta, if_true] at hlen ⊢; omega
    have hneg : neg = true → amt ≤ (encode t u).length := by
      intro hn; subst hn
      have := h4 rfl; rw [c.bytes] at this
      simp only [applyDelta, if_true] at hlen; omega
    have hroom' : neg = false → (encode s v).length + amt ≤ (w.get x).mem.orig + maxIncrease := by
      intro hn; subst hn
      simp only [applyDelta, Bool.false_eq_true, if_false] at hlen; omega
    rw [c.bytes] at h5
    obtain ⟨R2, T2, hrun, hp2, hself⟩ := run_notify_amb c w0 X0 hb0 hr0 π t u u' hres g' R T hp hT pre post neg amt snap
      h1 h2 h3 h5 hX hneg hroom'
    rw [← hev] at hrun
    have hTt := hon_leafy t u u _ T hl hT
    have := self_notify_leaf t u u (uszIn w0 (w.get x).base snap) ((w.get x).base + offsetOf s v π) neg amt (by
      cases t <;> simp [leafy] at hl <;> rfl)
    rw [← hTt.1, hself] at this
    cases this
    exact ⟨R2, hrun, hp2⟩

end Unsized.Ptr
