import Unsized.Access
/-!
# The traced operations compute the machine's own result (`*_fst`)
-/
namespace Unsized.Machine
open Common Unsized Unsized.Text

theorem addBytesNT_fst (m : Mem) (c : Ctx) (src start amount : Nat) :
    (m.addBytesNT c src start amount).1 = m.addBytesN c src start amount := by
  unfold Mem.addBytesNT Mem.addBytesN Mem.addBytesT
  rcases h : m.addBytes start amount with ⟨m1, r⟩
  cases r with
  | error e => rfl
  | ok u =>
    cases u
    simp only []
    split
    · rfl
    · split <;> simp_all

theorem removeBytesNT_fst (m : Mem) (c : Ctx) (src start stop : Nat) :
    (m.removeBytesNT c src start stop).1 = m.removeBytesN c src start stop := by
  unfold Mem.removeBytesNT Mem.removeBytesN Mem.removeBytesT
  rcases h : m.removeBytes start stop with ⟨m1, r⟩
  cases r with
  | error e => rfl
  | ok u =>
    cases u
    simp only []
    split
    · rfl
    · split <;> simp_all

theorem listInsertAllT_fst (c : Ctx) (ew lw b idx : Nat) (items : List (List Nat)) (m : Mem) :
    (listInsertAllT c ew lw b idx items m).1 = listInsertAll c ew lw b idx items m := by
  unfold listInsertAllT listInsertAll
  simp only []
  split
  · rfl
  · split
    · rfl
    · rw [← addBytesNT_fst]
      rcases m.addBytesNT c b (b + lw + idx * ew) (ew * items.length) with ⟨⟨m1, r⟩, ev⟩
      cases r with
      | error e => rfl
      | ok u => cases u; rfl

theorem listRemoveRangeT_fst (c : Ctx) (ew lw b lo hi : Nat) (m : Mem) :
    (listRemoveRangeT c ew lw b lo hi m).1 = listRemoveRange c ew lw b lo hi m := by
  unfold listRemoveRangeT listRemoveRange
  simp only []
  split
  · rfl
  · split
    · rfl
    · rw [← removeBytesNT_fst]
      rcases m.removeBytesNT c b (b + lw + lo * ew) (b + lw + hi * ew) with ⟨⟨m1, r⟩, ev⟩
      cases r with
      | error e => rfl
      | ok u => cases u; rfl

theorem listPopT_fst (c : Ctx) (ew lw b : Nat) (m : Mem) :
    (listPopT c ew lw b m).1 = listPop c ew lw b m := by
  unfold listPopT listPop
  simp only []
  split
  · rfl
  · rw [← listRemoveRangeT_fst]
    rcases listRemoveRangeT c ew lw b (rdN m.bytes b lw - 1) (rdN m.bytes b lw) m with ⟨⟨m1, r⟩, ev⟩
    cases r with
    | error e => rfl
    | ok u => cases u; rfl

theorem listClearT_fst (c : Ctx) (ew lw b : Nat) (m : Mem) :
    (listClearT c ew lw b m).1 = listClear c ew lw b m := by
  unfold listClearT listClear
  exact listRemoveRangeT_fst ..

theorem setInsertT_fst (c : Ctx) (ew lw b : Nat) (e : List Nat) (m : Mem) :
    (setInsertT c ew lw b e m).1 = setInsert c ew lw b e m := by
  unfold setInsertT setInsert
  cases hs : search (listKeys ew lw ew b m.bytes) (rdLE e) 0 with
  | «at» i => rfl
  | ins i =>
    simp only []
    rw [← listInsertAllT_fst]
    rcases listInsertAllT c ew lw b i [e] m with ⟨⟨m1, r⟩, ev⟩
    cases r with
    | error e => rfl
    | ok u => cases u; rfl

theorem setInsertAllT_fst (c : Ctx) (ew lw b : Nat) (es : List (List Nat)) :
    ∀ (n : Nat) (m : Mem), (setInsertAllT c ew lw b es n m).1 = setInsertAll c ew lw b es n m := by
  induction es with
  | nil => intro n m; rfl
  | cons e es ih =>
    intro n m
    simp only [setInsertAllT, setInsertAll]
    rw [← setInsertT_fst]
    rcases setInsertT c ew lw b e m with ⟨⟨m1, r⟩, ev⟩
    cases r with
    | error e => rfl
    | ok new => simp only []; exact ih _ m1

theorem setRemoveT_fst (c : Ctx) (ew lw b : Nat) (e : List Nat) (m : Mem) :
    (setRemoveT c ew lw b e m).1 = setRemove c ew lw b e m := by
  unfold setRemoveT setRemove
  cases hs : search (listKeys ew lw ew b m.bytes) (rdLE e) 0 with
  | ins i => rfl
  | «at» i =>
    simp only []
    rw [← listRemoveRangeT_fst]
    rcases listRemoveRangeT c ew lw b i (i + 1) m with ⟨⟨m1, r⟩, ev⟩
    cases r with
    | error e => rfl
    | ok u => cases u; rfl

theorem mapInsertT_fst (c : Ctx) (kw vw lw b : Nat) (k v : List Nat) (m : Mem) :
    (mapInsertT c kw vw lw b k v m).1 = mapInsert c kw vw lw b k v m := by
  unfold mapInsertT mapInsert
  simp only []
  cases hs : search (listKeys (kw + vw) lw kw b m.bytes) (rdLE k) 0 with
  | «at» i => rfl
  | ins i =>
    simp only []
    rw [← listInsertAllT_fst]
    rcases listInsertAllT c (kw + vw) lw b i [k ++ v] m with ⟨⟨m1, r⟩, ev⟩
    cases r with
    | error e => rfl
    | ok u => cases u; rfl

theorem mapInsertAllT_fst (c : Ctx) (kw vw lw b : Nat) (kvs : List (List Nat × List Nat)) :
    ∀ (n : Nat) (m : Mem), (mapInsertAllT c kw vw lw b kvs n m).1 = mapInsertAll c kw vw lw b kvs n m := by
  induction kvs with
  | nil => intro n m; rfl
  | cons kv kvs ih =>
    intro n m
    obtain ⟨k, v⟩ := kv
    simp only [mapInsertAllT, mapInsertAll]
    rw [← mapInsertT_fst]
    rcases mapInsertT c kw vw lw b k v m with ⟨⟨m1, r⟩, ev⟩
    cases r with
    | error e => rfl
    | ok old => simp only []; exact ih _ m1

theorem mapRemoveT_fst (c : Ctx) (kw vw lw b : Nat) (k : List Nat) (m : Mem) :
    (mapRemoveT c kw vw lw b k m).1 = mapRemove c kw vw lw b k m := by
  unfold mapRemoveT mapRemove
  simp only []
  cases hs : search (listKeys (kw + vw) lw kw b m.bytes) (rdLE k) 0 with
  | ins i => rfl
  | «at» i =>
    simp only []
    rw [← listRemoveRangeT_fst]
    rcases listRemoveRangeT c (kw + vw) lw b i (i + 1) m with ⟨⟨m1, r⟩, ev⟩
    cases r with
    | error e => rfl
    | ok u => cases u; rfl

theorem strSetT_fst (c : Ctx) (lw b : Nat) (s : List Nat) (m : Mem) :
    (strSetT c lw b s m).1 = strSet c lw b s m := by
  unfold strSetT strSet
  rw [← listClearT_fst]
  rcases listClearT c 1 lw b m with ⟨⟨m1, r⟩, ev⟩
  cases r with
  | error e => rfl
  | ok u => cases u; simp only []; exact listInsertAllT_fst ..

theorem remSetLenT_fst (c : Ctx) (b n : Nat) (m : Mem) :
    (remSetLenT c b n m).1 = remSetLen c b n m := by
  unfold remSetLenT remSetLen
  simp only []
  split
  · exact addBytesNT_fst ..
  · split
    · rfl
    · exact removeBytesNT_fst ..

theorem setDataInnerT_fst (c : Ctx) (t : Shape) (b : Nat) (newBytes : List Nat) (fails : Bool) (m : Mem) :
    (setDataInnerT c t b newBytes fails m).1 = setDataInner c t b newBytes fails m := by
  unfold setDataInnerT setDataInner
  cases hx : extent t (m.bytes.drop b) with
  | error e => rfl
  | ok cur =>
    simp only []
    by_cases h1 : cur < newBytes.length
    · simp only [h1, ↓reduceIte]
      rw [← addBytesNT_fst]
      rcases m.addBytesNT c b b (newBytes.length - cur) with ⟨⟨m1, r⟩, ev⟩
      cases r with
      | error e => rfl
      | ok u => cases u; simp only []; split <;> rfl
    · by_cases h2 : newBytes.length < cur
      · simp only [h1, h2, ↓reduceIte]
        rw [← removeBytesNT_fst]
        rcases m.removeBytesNT c b b (b + (cur - newBytes.length)) with ⟨⟨m1, r⟩, ev⟩
        cases r with
        | error e => rfl
        | ok u => cases u; simp only []; split <;> rfl
      · simp only [h1, h2, ↓reduceIte]
        split <;> rfl

theorem ulistInsertT_fst (c : Ctx) (cw : Nat) (e : Shape) (b idx n : Nat) (init : Init) (key : List Nat)
    (m : Mem) : (ulistInsertT c cw e b idx n init key m).1 = ulistInsert c cw e b idx n init key m := by
  unfold ulistInsertT ulistInsert
  simp only []
  split
  · rfl
  · rw [← addBytesNT_fst]
    rcases m.addBytesNT c b (b + 8 + rd32 m.bytes (b + 4) * cw + 4 + ulistOffset cw b idx m.bytes)
      ((initSize e init + cw) * n) with ⟨⟨m1, r⟩, ev⟩
    cases r with
    | error e => rfl
    | ok u =>
      cases u
      simp only []
      split
      · rfl
      · generalize adjustOffsets _ _ _ _ _ _ _ = a
        cases a with
        | error er => rfl
        | ok bs5 =>
          simp only []
          split
          · rfl
          · split <;> rfl

theorem ulistClearT_fst (c : Ctx) (cw b : Nat) (m : Mem) :
    (ulistClearT c cw b m).1 = ulistClear c cw b m := by
  unfold ulistClearT ulistClear
  simp only []
  rw [← removeBytesNT_fst]
  rcases m.removeBytesNT c b (b + 8 + 4) (b + 8 + rd32 m.bytes (b + 4) * cw + 4 + rd32 m.bytes b) with ⟨⟨m1, r⟩, ev⟩
  cases r with
  | error e => rfl
  | ok u => cases u; rfl

theorem ulistRemoveRangeT_fst (c : Ctx) (cw b lo hi : Nat) (m : Mem) :
    (ulistRemoveRangeT c cw b lo hi m).1 = ulistRemoveRange c cw b lo hi m := by
  unfold ulistRemoveRangeT ulistRemoveRange
  simp only []
  split
  · exact ulistClearT_fst ..
  · split
    · rfl
    · split
      · rfl
      · rw [← removeBytesNT_fst]
        generalize Mem.removeBytesNT _ c b _ _ = x
        rcases x with ⟨⟨m1, r⟩, ev⟩
        cases r with
        | error e => rfl
        | ok u =>
          cases u
          simp only []
          generalize adjustOffsets _ _ _ _ _ _ _ = a
          cases a <;> rfl

theorem ulistPopT_fst (c : Ctx) (cw b : Nat) (m : Mem) :
    (ulistPopT c cw b m).1 = ulistPop c cw b m := by
  unfold ulistPopT ulistPop
  simp only []
  split
  · rfl
  · rw [← ulistRemoveRangeT_fst]
    rcases ulistRemoveRangeT c cw b (rd32 m.bytes (b + 4) - 1) (rd32 m.bytes (b + 4)) m with ⟨⟨m1, r⟩, ev⟩
    cases r with
    | error e => rfl
    | ok u => cases u; rfl

theorem unitResT_fst (x : Traced Unit) : (unitResT x).1 = unitRes x.1 := by
  rcases x with ⟨⟨m1, r⟩, ev⟩
  cases r with
  | error e => rfl
  | ok u => cases u; rfl

theorem umapInsertT_fst (c : Ctx) (kw : Nat) (e : Shape) (b : Nat) (k : List Nat) (init : Init) (m : Mem) :
    (umapInsertT c kw e b k init m).1 = umapInsert c kw e b k init m := by
  unfold umapInsertT umapInsert
  simp only []
  cases hs : search (umapKeys kw b m.bytes) (rdLE k) 0 with
  | «at» i =>
    simp only []
    rw [← setDataInnerT_fst]
    generalize setDataInnerT _ e _ _ _ m = x
    rcases x with ⟨⟨m1, r⟩, ev⟩
    cases r with
    | error e => rfl
    | ok u => cases u; rfl
  | ins i =>
    simp only []
    rw [← ulistInsertT_fst]
    rcases ulistInsertT c (Shape.entryW kw) e b i 1 init k m with ⟨⟨m1, r⟩, ev⟩
    cases r with
    | error e => rfl
    | ok u => cases u; rfl

theorem sinsert_fst (c : Ctx) (e : Fixed) (lw b : Nat) (x : List Nat) (m : Mem) :
    (applyAtT c (.set e lw) b (.sinsert x) m).1 = applyAt c (.set e lw) b (.sinsert x) m := by
  simp only [applyAtT, applyAt]
  split
  · rw [← setInsertT_fst]
    rcases setInsertT c e.size lw b x m with ⟨⟨m1, r⟩, ev⟩
    cases r <;> rfl
  · rfl

theorem minsert_fst (c : Ctx) (kw : Nat) (v : Fixed) (lw b : Nat) (k x : List Nat) (m : Mem) :
    (applyAtT c (.map kw v lw) b (.minsert k x) m).1 = applyAt c (.map kw v lw) b (.minsert k x) m := by
  simp only [applyAtT, applyAt]
  split
  · rw [← mapInsertT_fst]
    rcases mapInsertT c kw v.size lw b k x m with ⟨⟨m1, r⟩, ev⟩
    cases r <;> rfl
  · rfl

theorem umremove_fst (c : Ctx) (kw : Nat) (e : Shape) (b : Nat) (k : List Nat) (m : Mem) :
    (applyAtT c (.umap kw e) b (.umremove k) m).1 = applyAt c (.umap kw e) b (.umremove k) m := by
  simp only [applyAtT, applyAt]
  split
  · cases hs : search (umapKeys kw b m.bytes) (rdLE k) 0 with
    | ins i => rfl
    | «at» i =>
      simp only []
      rw [← ulistRemoveRangeT_fst]
      rcases ulistRemoveRangeT c (Shape.entryW kw) b i (i + 1) m with ⟨⟨m1, r⟩, ev⟩
      cases r with
      | error e => rfl
      | ok u => cases u; rfl
  · rfl

set_option linter.unusedSimpArgs false in
theorem applyAtT_fst (c : Ctx) (t : Shape) (b : Nat) (op : Op) (m : Mem) :
    (applyAtT c t b op m).1 = applyAt c t b op m := by
  cases op with
  | sinsert x =>
    cases t with
    | set e lw => exact sinsert_fst ..
    | _ => simp only [applyAtT]
  | minsert k x =>
    cases t with
    | map kw v lw => exact minsert_fst ..
    | _ => simp only [applyAtT]
  | umremove k =>
    cases t with
    | umap kw e => exact umremove_fst ..
    | _ => simp only [applyAtT]
  | _ =>
    cases t <;> first
      | (simp only [applyAtT]; done)
      | (simp only [applyAtT, applyAt, unitResT_fst, setDataInnerT_fst, listInsertAllT_fst,
          listRemoveRangeT_fst, listPopT_fst, listClearT_fst, setRemoveT_fst, setInsertAllT_fst,
          mapRemoveT_fst, mapInsertAllT_fst, strSetT_fst, remSetLenT_fst, ulistInsertT_fst,
          ulistRemoveRangeT_fst, ulistPopT_fst, ulistClearT_fst, umapInsertT_fst]; done)
      | (simp only [applyAtT, applyAt]
         split <;> simp only [unitResT_fst, setDataInnerT_fst, listInsertAllT_fst,
          listRemoveRangeT_fst, listPopT_fst, listClearT_fst, setRemoveT_fst, setInsertAllT_fst,
          mapRemoveT_fst, mapInsertAllT_fst, strSetT_fst, remSetLenT_fst, ulistInsertT_fst,
          ulistRemoveRangeT_fst, ulistPopT_fst, ulistClearT_fst, umapInsertT_fst])

theorem applyOpT_fst (s : Shape) (abs : List Step) (op : Op) (m : Mem) :
    (applyOpT s abs op m).1 = applyOp s abs op m := by
  unfold applyOpT applyOp
  cases locate s abs 0 m.bytes with
  | error e => rfl
  | ok tb => obtain ⟨t, b⟩ := tb; exact applyAtT_fst ..
