import Unsized.PtrHonestM5
import Unsized.PtrTraceB
namespace Unsized.Ptr
open Common Unsized Unsized.Text Unsized.Machine Unsized.PtrT Unsized.PtrM

/-- own address of a non-struct pointer -/
def ownAddr : PtrTree → Option Nat
  | .leaf _ a => some a
  | .ulist _ a _ _ _ _ _ => some a
  | .start a _ _ => some a
  | .node _ => none

theorem ownAddr_notify (usz : Nat → Nat) (neg : Bool) (amt : Nat) (k k' : PtrTree) (a : Nat)
    (h : ownAddr k = some a) (hn : resizeNotify usz a neg amt k = some k') : ownAddr k' = some a := by
  cases k with
  | leaf kd ad =>
    simp only [ownAddr, Option.some.injEq] at h; subst h
    cases kd <;> simp only [resizeNotify, Nat.lt_irrefl, if_false, if_true, Option.some.injEq] at hn <;> subst hn <;> rfl
  | ulist cw ad len lo hi inner pmb =>
    simp only [ownAddr, Option.some.injEq] at h; subst h
    cases inner <;> simp only [resizeNotify, Nat.lt_irrefl, if_false, if_true, Option.some.injEq] at hn <;> subst hn <;> rfl
  | start ad idx po =>
    simp only [ownAddr, Option.some.injEq] at h; subst h
    simp only [resizeNotify, Nat.lt_irrefl, if_false] at hn
    cases h2 : notifyO usz ad neg amt po with
    | none => simp [h2] at hn
    | some p' => simp only [h2, Option.some.injEq] at hn; subst hn; rfl
  | node ks => simp [ownAddr] at h

theorem startAddr_eq (T : PtrTree) : startAddr T =
    match T with
    | .node (k :: _) => (match k with | .node (k2 :: _) => ownAddr k2 | .node [] => none | k => ownAddr k)
    | .node [] => none
    | T => ownAddr T := by
  cases T with
  | leaf k a => rfl
  | ulist cw ad len lo hi inner pmb => rfl
  | start ad idx po => rfl
  | node ks =>
    cases ks with
    | nil => rfl
    | cons k ks =>
      cases k with
      | leaf k a => rfl
      | ulist cw ad len lo hi inner pmb => rfl
      | start ad idx po => rfl
      | node ks2 =>
        cases ks2 with
        | nil => rfl
        | cons k2 ks2 => cases k2 <;> rfl

/-- The notification whose source is the object's own start does not move its start. -/
theorem startAddr_notify_self (usz : Nat → Nat) (neg : Bool) (amt : Nat) (T T' : PtrTree) (a : Nat)
    (h : startAddr T = some a) (hn : resizeNotify usz a neg amt T = some T') : startAddr T' = some a := by
  cases T with
  | node ks =>
    cases ks with
    | nil => simp [startAddr] at h
    | cons k ks =>
      simp only [resizeNotify, notifyL] at hn
      cases hk : resizeNotify usz a neg amt k with
      | none => simp [hk] at hn
      | some k' =>
        simp only [hk] at hn
        cases hks : notifyL usz a neg amt ks with
        | none => simp [hks] at hn
        | some ks' =>
          simp only [hks, Option.some.injEq] at hn
          subst hn
          cases k with
          | node ks2 =>
            cases ks2 with
            | nil => simp [startAddr] at h
            | cons k2 ks2 =>
              simp only [resizeNotify, notifyL] at hk
              cases hk2 : resizeNotify usz a neg amt k2 with
              | none => simp [hk2] at hk
              | some k2' =>
                simp only [hk2] at hk
                cases hks2 : notifyL usz a neg amt ks2 with
                | none => simp [hks2] at hk
                | some ks2' =>
                  simp only [hks2, Option.some.injEq] at hk
                  subst hk
                  rw [startAddr_eq] at h ⊢
                  simp only [] at h ⊢
                  have hk2o : ownAddr k2 = some a := by cases k2 <;> simpa [ownAddr] using h
                  have := ownAddr_notify usz neg amt k2 k2' a hk2o hk2
                  cases k2' <;> simpa [ownAddr] using this
          | leaf kd ad =>
            rw [startAddr_eq] at h ⊢
            have := ownAddr_notify usz neg amt _ k' a (by simpa [ownAddr] using h) hk
            cases k' <;> simpa [ownAddr] using this
          | ulist cw ad len lo hi inner pmb =>
            rw [startAddr_eq] at h ⊢
            have := ownAddr_notify usz neg amt _ k' a (by simpa [ownAddr] using h) hk
            cases k' <;> simpa [ownAddr] using this
          | start ad idx po =>
            rw [startAddr_eq] at h ⊢
            have := ownAddr_notify usz neg amt _ k' a (by simpa [ownAddr] using h) hk
            cases k' <;> simpa [ownAddr] using this
  | leaf kd ad =>
    rw [startAddr_eq] at h ⊢
    have := ownAddr_notify usz neg amt _ T' a (by simpa [ownAddr] using h) hn
    cases T' <;> simpa [ownAddr] using this
  | ulist cw ad len lo hi inner pmb =>
    rw [startAddr_eq] at h ⊢
    have := ownAddr_notify usz neg amt _ T' a (by simpa [ownAddr] using h) hn
    cases T' <;> simpa [ownAddr] using this
  | start ad idx po =>
    rw [startAddr_eq] at h ⊢
    have := ownAddr_notify usz neg amt _ T' a (by simpa [ownAddr] using h) hn
    cases T' <;> simpa [ownAddr] using this

/-! ## Walking the events -/

theorem runEvs_noNotify (w : World) (X : PBuf) (root : PtrTree) (evs : List Ev) (hn : NoNotify evs)
    (hc : checkTop X.rng root = true) : runEvs w X root evs = .ok root := by
  induction evs with
  | nil => rfl
  | cons e es ih =>
    have he := hn e List.mem_cons_self
    have := ih (fun x hx => hn x (List.mem_cons_of_mem _ hx))
    cases e with
    | call => simp only [runEvs, hc, if_true, this]
    | notify a b c d => simp [isNotify] at he
    | move a b c => simp only [runEvs, this]
    | realloc a b c => simp only [runEvs, this]

theorem runEvs_inert (w : World) (X : PBuf) (root : PtrTree) (evs : List Ev) (hn : Inert evs) :
    runEvs w X root evs = .ok root := by
  induction evs with
  | nil => rfl
  | cons e es ih =>
    have he := hn e List.mem_cons_self
    have := ih (fun x hx => hn x (List.mem_cons_of_mem _ hx))
    cases e with
    | call => simp [isCall] at he
    | notify a b c d => simp [isNotify] at he
    | move a b c => simp only [runEvs, this]
    | realloc a b c => simp only [runEvs, this]

theorem runEvs_append_ok (w : World) (X : PBuf) (root root' : PtrTree) (a b : List Ev)
    (h : runEvs w X root a = .ok root') : runEvs w X root (a ++ b) = runEvs w X root' b := by
  induction a generalizing root with
  | nil => simp only [runEvs] at h; cases h; rfl
  | cons e es ih =>
    cases e with
    | call =>
      simp only [List.cons_append, runEvs] at h ⊢
      split at h
      · rename_i hc; simp only [hc, if_true]; exact ih root h
      · cases h
    | notify s n k bs =>
      simp only [List.cons_append, runEvs] at h ⊢
      cases hr : resizeNotify (uszIn w X.base bs) (X.base + s) n k root with
      | some r' => simp only [hr] at h ⊢; exact ih r' h
      | none => simp only [hr] at h ⊢; exact ih root h
    | move x y z => simp only [runEvs] at h; simp only [List.cons_append, runEvs]; exact ih root h
    | realloc x y z => simp only [runEvs] at h; simp only [List.cons_append, runEvs]; exact ih root h

/-- The events of a single-resize op: the calls before the notification see the old object, the
notification is applied once, nothing afterwards looks at the pointers. -/
theorem runEvs_one (w : World) (X : PBuf) (root root' : PtrTree) (pre post : List Ev) (src : Nat) (neg : Bool)
    (amt : Nat) (snap : List Nat) (hpre : NoNotify pre) (hpost : Inert post) (hc : checkTop X.rng root = true)
    (hr : resizeNotify (uszIn w X.base snap) (X.base + src) neg amt root = some root') :
    runEvs w X root (pre ++ Ev.notify src neg amt snap :: post) = .ok root' := by
  rw [runEvs_append_ok w X root root pre _ (runEvs_noNotify w X root pre hpre hc)]
  simp only [runEvs, hr]
  exact runEvs_inert w X root' post hpost

end Unsized.Ptr
