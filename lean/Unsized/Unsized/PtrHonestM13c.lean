import Unsized.PtrHonestM13b
namespace Unsized.Ptr
open Common Unsized Unsized.Text Unsized.Machine Unsized.PtrT Unsized.PtrM

/-- `runEvs` on the events of an op on the node at `π` whose single resize happens at the (possibly deeper)
path `π'` (`UnsizedMap::insert` on an existing key: the element). -/
def RunOutAt (w : World) (x : Which) (s : Shape) (v : Val) (π : List Step) (t : Shape) (u : Val) (op : Op)
    (π' : List Step) (t' : Shape) (u1 x' : Val) (R1 T1 : PtrTree) : Prop :=
  let X := w.get x
  let tr := applyAtT ⟨s, π⟩ t (offsetOf s v π) op X.mem
  (∃ e, Spec.applyNode t u op = .error e ∧ tr.1 = (X.mem, .error e) ∧ runEvs w X R1 tr.2 = .ok R1) ∨
  (∃ u' r m', Spec.applyNode t u op = .ok (u', r) ∧ tr.1 = (m', .ok r)
      ∧ Focus s (subst s v π u') π t u' m' ∧ m'.orig = X.mem.orig ∧ m'.refuse = X.mem.refuse ∧
      ((size t' x' = size t' u1 ∧ runEvs w X R1 tr.2 = .ok R1) ∨
       (∃ neg amt snap R2 T2, runEvs w X R1 tr.2 = .ok R2
          ∧ HonPath s (subst s v π' x') X.base π' R2 T2
          ∧ resizeNotify (uszIn w X.base snap) (X.base + offsetOf s v π') neg amt T1 = some T2
          ∧ size t' x' = applyDelta neg amt (size t' u1) ∧ (neg = true → amt ≤ size t' u1) ∧ 0 < amt)))

theorem run_op_at {w : World} {x : Which} {s : Shape} {v : Val} (c : PCtx w x s v) (π : List Step) (t : Shape)
    (u : Val) (hres : resolve s v π = .ok (t, u)) (π' : List Step) (t' : Shape) (u1 x' : Val)
    (hres' : resolve s v π' = .ok (t', u1)) (R1 T1 : PtrTree)
    (hp : HonPath s v (w.get x).base π' R1 T1) (hT : Hon t' u1 ((w.get x).base + offsetOf s v π') T1)
    (op : Op) (hs : simpleOp op = true)
    (hsrc : srcOf t (offsetOf s v π) op (w.get x).mem = offsetOf s v π')
    (hsub : ∀ u' r, Spec.applyNode t u op = .ok (u', r) → subst s v π u' = subst s v π' x')
    (hcmd : match Spec.applyNode t u op with
      | .ok (u', _) => (plug s v π (encode t u')).length ≤ (w.get x).mem.orig + maxIncrease
      | .error e => e ≠ .initFail) :
    RunOutAt w x s v π t u op π' t' u1 x' R1 T1 := by
  have F : Focus s v π t u (w.get x).mem := ⟨c.good, hres, c.bytes⟩
  have F1 : Focus s v π' t' u1 (w.get x).mem := ⟨c.good, hres', c.bytes⟩
  have gt := F.sub
  have gt1 := F1.sub
  have href := node_refines F c.calm op
  have hlen := applyAtT_len_exact F c.calm op
  have hesp := applyAtT_espec ⟨s, π⟩ t (offsetOf s v π) op (w.get x).mem hs (fun cw hc => ulistOk_of_focus F cw hc)
  rw [hsrc] at hesp
  have hfst := applyAtT_fst ⟨s, π⟩ t (offsetOf s v π) op (w.get x).mem
  have hroot : checkTop (w.get x).rng R1 = true :=
    checkTop_hon c R1 (honPath_fill π' s v t' u1 _ R1 T1 c.good hres' hp hT)
  have hst : size t' u1 = (encode t' u1).length := (encode_size_all _ _ gt1.valid).symm
  unfold RunOutAt
  simp only []
  unfold Refines at href
  cases hspec : Spec.applyNode t u op with
  | error e =>
    rw [hspec] at href hcmd
    simp only [] at hcmd
    have happ : applyAt ⟨s, π⟩ t (offsetOf s v π) op (w.get x).mem = ((w.get x).mem, .error e) := by
      cases e <;> first
        | exact absurd rfl hcmd
        | (rcases href with h | h
           · rw [simple_not_composite op hs] at h; cases h
           · exact h)
    refine Or.inl ⟨e, rfl, by rw [hfst, happ], ?_⟩
    rcases hesp with ⟨hn, _⟩ | ⟨neg, amt, pre, snap, post, hev, h1, h2, h3, h4, h5, h6⟩
    · exact runEvs_noNotify w _ R1 _ hn hroot
    · exfalso
      have hq := hlen.1
      rw [h6, hfst, happ] at hq
      simp only [] at hq
      cases neg with
      | false => simp only [applyDelta, Bool.false_eq_true, if_false] at hq; omega
      | true => have := h4 rfl; simp only [applyDelta, if_true] at hq; omega
  | ok ur =>
    obtain ⟨u', r⟩ := ur
    rw [hspec] at href hcmd
    simp only [] at href hcmd
    obtain ⟨m', happ, F', ho, hr⟩ := href hcmd
    have hv' := hsub u' r hspec
    have g' : Good s (subst s v π' x') := by rw [← hv']; exact F'.good
    have hr2 := resolve_subst π' s v t' u1 x' hres'
    have gt' : Good t' x' := (Focus.sub (m := m') ⟨g', hr2, by rw [← hv']; exact F'.bytes⟩)
    have hst' : size t' x' = (encode t' x').length := (encode_size_all _ _ gt'.valid).symm
    have hpl := plug_length π' s v t' u1 c.good hres' (encode t' x')
    have henc' : encode s (subst s v π' x') = plug s v π' (encode t' x') := subst_encode π' s v t' u1 x' c.good hres'
    have hm'len : m'.bytes.length = (plug s v π' (encode t' x')).length := by rw [F'.bytes, hv', henc']
    have hlen1 := hlen.1
    rw [hfst, happ] at hlen1
    simp only [] at hlen1
    have hle := offsetOf_le π' s v t' u1 c.good hres'
    refine Or.inr ⟨u', r, m', rfl, by rw [hfst, happ], F', ho, hr, ?_⟩
    rcases hesp with ⟨hn, hl0⟩ | ⟨neg, amt, pre, snap, post, hev, h1, h2, h3, h4, h5, h6⟩
    · refine Or.inl ⟨?_, runEvs_noNotify w _ R1 _ hn hroot⟩
      rw [hl0, c.bytes] at hlen1
      omega
    · refine Or.inr ?_
      rw [h6, c.bytes] at hlen1
      have hX : (encode t' x').length = applyDelta neg amt (encode t' u1).length := by
        cases neg with
        | false => simp only [applyDelta, Bool.false_eq_true, if_false] at hlen1 ⊢; omega
        | true =>
          have := h4 rfl; rw [c.bytes] at this
          simp only [applyDelta, if_true] at hlen1 ⊢; omega
      have hneg : neg = true → amt ≤ (encode t' u1).length := by
        intro hn; subst hn
        have := h4 rfl; rw [c.bytes] at this
        simp only [applyDelta, if_true] at hlen1; omega
      have hroom : neg = false → (encode s v).length + amt ≤ (w.get x).mem.orig + maxIncrease := by
        intro hn; subst hn
        have hq : (plug s v π (encode t u')).length = (plug s v π' (encode t' x')).length := by
          rw [← subst_encode π s v t u u' c.good hres, hv', henc']
        simp only [applyDelta, Bool.false_eq_true, if_false] at hlen1; omega
      rw [c.bytes] at h5
      obtain ⟨R2, T2, hrun, hp2, hself⟩ := run_notify c π' t' u1 x' hres' g' R1 T1 hp hT pre post neg amt snap h1 h2 h3
        h5 hX hneg hroom
      rw [← hev] at hrun
      exact ⟨neg, amt, snap, R2, T2, hrun, hp2, hself, by rw [hst', hst]; exact hX, by rw [hst]; exact hneg, h3⟩


/-- `UnsizedMap::insert(k, init)` as an op. -/
def InsOp (op : Op) (k : List Nat) (init : Init) : Prop :=
  (op = .uminsert k ∧ init = .default) ∨ ∃ xs, op = .uminsertArr k xs ∧ init = .array xs

theorem insOp_facts (kw : Nat) (e : Shape) (op : Op) (k : List Nat) (init : Init) (h : InsOp op k init)
    (keys : List Nat) (j : Nat) (hat : search keys (rdLE k) 0 = .at j) :
    umapFound keys op = some (.at j)
    ∧ (∀ len, preOf (.umap kw e) len (some (.at j)) op = .enterSetData j)
    ∧ (∀ len, postLen (.umap kw e) op (some (.at j)) len = len)
    ∧ setDataLen (.umap kw e) op = none
    ∧ (match op with | .uminsertArr _ xs => Init.array xs | _ => Init.default) = init := by
  rcases h with ⟨rfl, rfl⟩ | ⟨xs, rfl, rfl⟩
  · exact ⟨by simp [umapFound, hat], fun _ => rfl, fun _ => rfl, rfl, rfl⟩
  · exact ⟨by simp [umapFound, hat], fun _ => rfl, fun _ => rfl, rfl, rfl⟩

theorem insOp_spec (kw : Nat) (e : Shape) (es : List (List Nat × Val)) (op : Op) (k : List Nat) (init : Init)
    (h : InsOp op k init) (hoke : Shape.okAux false false e = true) (u' : Val) (r : Ret)
    (hs : Spec.applyNode (.umap kw e) (.umap es) op = .ok (u', r)) :
    u' = .umap (insKV k (denote e init) es) ∧ k.length = kw ∧ BytesWF k ∧ initOk e init = true := by
  rcases h with ⟨rfl, rfl⟩ | ⟨xs, rfl, rfl⟩
  · simp only [Spec.applyNode] at hs
    split at hs
    · rename_i hc
      simp only [Bool.and_eq_true, beq_iff_eq, decide_eq_true_eq] at hc
      cases hs
      exact ⟨rfl, hc.1, hc.2, initOk_default e false hoke⟩
    · cases hs
  · simp only [Spec.applyNode] at hs
    split at hs
    · rename_i hc
      simp only [Bool.and_eq_true, beq_iff_eq, decide_eq_true_eq] at hc
      split at hs
      · cases hs
      · cases hs
        refine ⟨rfl, hc.1.1, hc.1.2, ?_⟩
        have ha := hc.2
        cases e with
        | list ee lw =>
          simp only [arrOk, Bool.and_eq_true] at ha
          simpa [initOk, validE] using ha.2
        | _ => simp only [arrOk, Bool.false_eq_true] at ha
    · cases hs


theorem opAt_hon_umap_at {w : World} {s : Shape} {v : Val} (c : PCtx w .A s v) (π : List Step) (kw : Nat) (e : Shape)
    (vs : List (List Nat × Val)) (hres : resolve s v π = .ok (.umap kw e, .umap vs)) (T : PtrTree)
    (hp : HonPath s v w.a.base π w.a.root T) (hT : Hon (.umap kw e) (.umap vs) (w.a.base + offsetOf s v π) T)
    (op : Op) (hs : simpleOp op = true) (k : List Nat) (init : Init) (hop : InsOp op k init)
    (hhas : Spec.hasUKey (rdLE k) vs = true)
    (hstart : ∀ (x : Val) (B : Nat), valid e x = true → ∃ a, startAddr (treeOf e x B) = some a)
    (hcmd : match Spec.applyNode (.umap kw e) (.umap vs) op with
      | .ok (u', _) => (plug s v π (encode (.umap kw e) u')).length ≤ w.a.mem.orig + maxIncrease
      | .error er => er ≠ .initFail) :
    StepRes w s v π (.umap kw e) (.umap vs) op (opAt w .A ⟨s, π⟩ (tpath s v π) (.umap kw e) op) := by
  have F : Focus s v π (.umap kw e) (.umap vs) w.a.mem := ⟨c.good, hres, c.bytes⟩
  have gt := F.sub
  obtain ⟨hkwpos, hoke, hze⟩ := umap_elem_ok gt.ok
  obtain ⟨hall, hsk⟩ := good_umap_keys gt
  obtain ⟨hsub, hrep⟩ := honPath_nav π s v _ _ _ _ T c.good hres hp
  have hle := offsetOf_le π s v _ _ c.good hres
  have hfit := c.calm.fitsNow
  have hbytes := c.bytes
  simp only [World.get] at hfit hbytes
  -- the existing entry
  have hkeys := umapKeys_enc F c.calm.lt
  obtain ⟨j, hj, hat, hkj, hb0⟩ : ∃ j, ∃ _ : j < vs.length,
      search (vs.map fun kv => rdLE kv.1) (rdLE k) 0 = .at j ∧ rdLE vs[j].1 = rdLE k
      ∧ ∀ y ∈ vs.take j, rdLE y.1 < rdLE k := by
    rcases search_sorted (fun kv : List Nat × Val => rdLE kv.1) vs (rdLE k) 0 hsk with
      ⟨j, hj, hse, hkj, hb, _⟩ | ⟨j, hj, hse, hb, ha⟩
    · exact ⟨j, hj, by simpa using hse, hkj, hb⟩
    · have := any_false_of_split (fun kv : List Nat × Val => rdLE kv.1) vs (rdLE k) j hb ha
      rw [Spec.hasUKey] at hhas; rw [hhas] at this; cases this
  obtain ⟨hfd0, hpre0, hpl0, hsd0, hinit0⟩ := insOp_facts kw e op k init hop (vs.map fun kv => rdLE kv.1) j hat
  have hxj : vs[j]? = some vs[j] := List.getElem?_eq_getElem hj
  have h1 : resolve1 (.umap kw e) (.umap vs) (.elem j) = .ok (e, vs[j].2) := by simp [resolve1, hxj]
  obtain ⟨F1, hoff1⟩ := F.elem c.calm.lt j vs[j] hxj
  have hres1 := F1.res
  have hoffapp := offsetOf_append π [.elem j] s v _ _ hres
  have hoffe : offsetOf (.umap kw e) (.umap vs) [.elem j] = (stepPre (.umap kw e) (.umap vs) (.elem j) 0).length := by
    simp only [offsetOf, h1, Nat.add_zero]
  -- the form of the target pointer
  have hT0 := hT
  simp only [Hon] at hT0
  obtain ⟨inner, pmb, rfl, hin⟩ := hT0
  have key1 : ∀ pre, runPre w w.a.rng (.umap kw e) (.node [.ulist (Shape.entryW kw) (w.a.base + offsetOf s v π) vs.length (w.a.base + offsetOf s v π) (w.a.base + offsetOf s v π + size (.umap kw e) (.umap vs)) inner pmb]) pre ≠ none := by
    intro pre h
    obtain ⟨T1, h1', _⟩ := prologue_hon c π _ _ hres _ hT pre
    simp only [World.get] at h1'; rw [h] at h1'; cases h1'
  have key2 : ∀ t1, runPre w w.a.rng (.umap kw e) (.node [.ulist (Shape.entryW kw) (w.a.base + offsetOf s v π) vs.length (w.a.base + offsetOf s v π) (w.a.base + offsetOf s v π + size (.umap kw e) (.umap vs)) inner pmb]) (.enterSetData j) = some t1 →
      Hon (.umap kw e) (.umap vs) (w.a.base + offsetOf s v π) t1
      ∧ HonStep (.umap kw e) (.umap vs) (.elem j) (w.a.base + offsetOf s v π) t1
          (treeOf e vs[j].2 (w.a.base + offsetOf s v (π ++ [.elem j]))) := by
    intro t1 h
    obtain ⟨T1, h1', h2, h3, _⟩ := prologue_hon c π _ _ hres _ hT (.enterSetData j)
    simp only [World.get] at h1' h2 h3; rw [h] at h1'; cases h1'
    refine ⟨h2, ?_⟩
    have := h3 j e vs[j].2 (Or.inr rfl) h1
    rw [hoffapp, hoffe, ← Nat.add_assoc]; exact this
  unfold opAt
  have hsaT : startAddr (.node [.ulist (Shape.entryW kw) (w.a.base + offsetOf s v π) vs.length (w.a.base + offsetOf s v π) (w.a.base + offsetOf s v π + size (.umap kw e) (.umap vs)) inner pmb]) = some (w.a.base + offsetOf s v π) := rfl
  simp only [World.get, hsub, hsaT]
  have hown : w.owner (w.a.base + offsetOf s v π) = some .A :=
    ownsOwn_A w _ (by simp [World.get, PBuf.owns, hbytes]; omega)
  have hb : w.a.base + offsetOf s v π - w.a.base = offsetOf s v π := by omega
  simp only [hown, World.get, hb, listOf, lenOf]
  have hsrc : srcOf (.umap kw e) (offsetOf s v π) op w.a.mem = offsetOf s v (π ++ [.elem j]) := by
    rcases hop with ⟨rfl, _⟩ | ⟨xs, rfl, _⟩ <;> simp only [srcOf, hkeys, hat] <;> exact hoff1.symm
  have hsub : ∀ u' r, Spec.applyNode (.umap kw e) (.umap vs) op = .ok (u', r) →
      subst s v π u' = subst s v (π ++ [.elem j]) (denote e init) := by
    intro u' r hsp
    obtain ⟨rfl, hk, hwf, _⟩ := insOp_spec kw e vs op k init hop hoke u' r hsp
    obtain ⟨hl1, hwf1, _, _⟩ := hall vs[j] (List.getElem_mem _)
    have hkey : vs[j].1 = k := rdLE_inj (by rw [hl1, hk]) hwf1 hwf hkj
    rw [subst_elem hres j vs[j] hxj, hkey, ← insKV_replace k _ vs j hj hkj hb0]
  have hrun := fun R1 t1 (h1' : HonPath s v w.a.base (π ++ [Step.elem j]) R1 t1)
      (h2 : Hon e vs[j].2 (w.a.base + offsetOf s v (π ++ [Step.elem j])) t1) =>
    run_op_at c π _ _ hres (π ++ [Step.elem j]) e vs[j].2 (denote e init) hres1 R1 t1 h1' h2 op hs hsrc hsub hcmd
  simp only [RunOutAt, World.get] at hrun
  rcases htr : applyAtT ⟨s, π⟩ (.umap kw e) (offsetOf s v π) op w.a.mem with ⟨⟨m', res⟩, evs⟩
  rw [htr] at hrun
  simp only [] at hrun
  cases res with
  | ok r =>
    simp only []
    split
    · rename_i heq; exact absurd heq (key1 _)
    · rename_i t1 heq
      generalize hpre : preOf (Shape.umap kw e) _ _ op = pre at heq ⊢
      have hpreq : pre = .enterSetData j := by
        obtain ⟨fd, hfd, hpre'⟩ : ∃ fd, fd = umapFound (vs.map fun kv => rdLE kv.1) op
            ∧ preOf (.umap kw e) vs.length fd op = pre :=
          ⟨_, (by cases op <;> first | rfl | (rw [← hkeys]; rfl)), hpre⟩
        rw [← hpre', hfd, hfd0, hpre0 vs.length]
      subst hpreq
      obtain ⟨hT1, hstep⟩ := key2 t1 heq
      obtain ⟨R1, hR1, hp1⟩ := hrep t1
      simp only [hR1, Option.getD_some]
      have hp1' : HonPath s v w.a.base (π ++ [.elem j]) R1
          (treeOf e vs[j].2 (w.a.base + offsetOf s v (π ++ [.elem j]))) :=
        honPath_append π s v _ _ _ [.elem j] R1 t1 _ hres hp1 (by
          simp only [HonPath, h1]
          exact ⟨_, hstep, by rw [hoffapp, hoffe, ← Nat.add_assoc]⟩)
      rcases hrun R1 _ hp1' (hon_treeOf e _ _) with ⟨e', _, h, _⟩ | ⟨u', r', m1, hspec, heq2, F', ho, hr, hcases⟩
      · cases h
      · cases heq2
        obtain ⟨rfl, hk, hwf, hio⟩ := insOp_spec kw e vs op k init hop hoke u' r hspec
        obtain ⟨hl1, hwf1, _, _⟩ := hall vs[j] (List.getElem_mem _)
        have hkey : vs[j].1 = k := rdLE_inj (by rw [hl1, hk]) hwf1 hwf hkj
        have hins : insKV k (denote e init) vs = vs.set j (k, denote e init) := insKV_replace k _ vs j hj hkj hb0
        have hv' := hsub _ r hspec
        have g' := F'.good
        have g'' : Good s (subst s v (π ++ [Step.elem j]) (denote e init)) := by rw [← hv']; exact g'
        have hresπ := resolve_subst π s v _ _ (.umap (insKV k (denote e init) vs)) hres
        have hres1' := resolve_subst (π ++ [Step.elem j]) s v _ _ (denote e init) hres1
        have hoff1' := offsetOf_subst (π ++ [Step.elem j]) s v _ _ (denote e init) c.good hres1
        have hoffπ' := offsetOf_subst π s v _ _ (.umap (insKV k (denote e init) vs)) c.good hres
        have htp' := tpath_subst π s v _ _ (.umap (insKV k (denote e init) vs)) hres
        have hroom : (encode s (subst s v π (.umap (insKV k (denote e init) vs)))).length ≤ w.a.mem.orig + maxIncrease := by
          rw [subst_encode π s v _ _ _ c.good hres]; rw [hspec] at hcmd; exact hcmd
        have gx : Good e (denote e init) :=
          (Focus.sub (m := m') ⟨g'', hres1', by rw [← hv']; exact F'.bytes⟩)
        have gold : Good e vs[j].2 := F1.sub
        -- the object after the events
        obtain ⟨root2, T2, hrunE, hp2, hsa2⟩ : ∃ root2 T2, runEvs w w.a R1 evs = .ok root2
            ∧ HonPath s (subst s v (π ++ [Step.elem j]) (denote e init)) w.a.base (π ++ [Step.elem j]) root2 T2
            ∧ startAddr T2 = some (w.a.base + offsetOf s v (π ++ [Step.elem j])) := by
          obtain ⟨a0, ha0⟩ := hstart vs[j].2 (w.a.base + offsetOf s v (π ++ [Step.elem j])) gold.valid
          have ha0' : a0 = w.a.base + offsetOf s v (π ++ [Step.elem j]) :=
            startAddr_hon e vs[j].2 _ _ a0 gold (hon_treeOf e _ _) (by intro d i hd; subst hd; simp [Shape.okAux] at hoke) ha0
          subst ha0'
          rcases hcases with ⟨hsz, hre⟩ | ⟨neg, amt, snap, R2, T2, hre, hp2, hself, _⟩
          · exact ⟨R1, _, hre, honPath_same (π ++ [Step.elem j]) s v _ _ (denote e init) _ R1 _ c.good g'' hres1 hsz hp1', ha0⟩
          · exact ⟨R2, T2, hre, hp2, startAddr_notify_self _ neg amt _ T2 _ ha0 hself⟩
        -- the map pointer inside it
        rw [← hv'] at hp2
        obtain ⟨M, hpM, hqM⟩ := honPath_split π s _ _ _ w.a.base [Step.elem j] root2 T2 hresπ hp2
        have hr1' : resolve1 (.umap kw e) (.umap (insKV k (denote e init) vs)) (.elem j) = .ok (e, denote e init) := by
          rw [hins]; simp [resolve1, hj]
        simp only [HonPath, hr1'] at hqM
        obtain ⟨child, hstepM, rfl⟩ := hqM
        simp only [HonStep] at hstepM
        obtain ⟨pmbM, rfl⟩ := hstepM
        obtain ⟨hsubM, hrepM⟩ := honPath_nav π s _ _ _ _ _ _ g' hresπ hpM
        rw [htp'] at hsubM hrepM
        simp only [hrunE, if_true, hsubM, onList, setLen, listOf, elemShape, hsd0, hsa2]
        generalize hpl : postLen (Shape.umap kw e) op _ _ = pl
        have hpleq : pl = (insKV k (denote e init) vs).length := by
          obtain ⟨fd, hfd, hpl'⟩ : ∃ fd, fd = umapFound (vs.map fun kv => rdLE kv.1) op
              ∧ postLen (.umap kw e) op fd (insKV k (denote e init) vs).length = pl :=
            ⟨_, (by cases op <;> first | rfl | (rw [← hkeys]; rfl)), hpl⟩
          rw [← hpl', hfd, hfd0, hpl0]
        subst hpleq
        generalize hini : initSize e _ = isz
        have hiseq : isz = (encode e (denote e init)).length := by
          rw [← hini]
          have := (initP_all e init hio).2.1
          rcases hop with ⟨rfl, rfl⟩ | ⟨xs, rfl, rfl⟩ <;> simp only [] <;> rw [this, encode_size_all e _ gx.valid]
        subst hiseq
        have hfresh := fresh_after s _ (π ++ [Step.elem j]) e (denote e init) g'' hres1' w { w.a with mem := m' }
          (by rw [← hv']; exact F'.bytes)
        simp only [hoff1'] at hfresh
        simp only [hfresh, setInner]
        obtain ⟨T4, hT4⟩ : ∃ T4, T4 = PtrTree.node [.ulist (Shape.entryW kw)
          (w.a.base + offsetOf s (subst s v π (.umap (insKV k (denote e init) vs))) π)
          (insKV k (denote e init) vs).length
          (w.a.base + offsetOf s (subst s v π (.umap (insKV k (denote e init) vs))) π)
          (w.a.base + offsetOf s (subst s v π (.umap (insKV k (denote e init) vs))) π
            + size (.umap kw e) (.umap (insKV k (denote e init) vs)))
          (some (treeOf e (denote e init) (w.a.base + offsetOf s v (π ++ [Step.elem j])))) true] := ⟨_, rfl⟩
        rw [← hT4]
        obtain ⟨R3, hR3, hp3⟩ := hrepM T4
        simp only [hR3, Option.getD_some, StepRes]
        refine ⟨subst s v π (.umap (insKV k (denote e init) vs)), .umap (insKV k (denote e init) vs), T4, ?_, hresπ, ?_, ?_,
          rfl, rfl, ?_, rfl, rfl, rfl, Or.inl ⟨r, hspec, rfl, rfl⟩⟩
        · exact pctx_after c m' R3 g' F'.bytes ho hr hroom
        · simpa [World.set, World.get] using hp3
        · simp only [World.set, World.get]
          rw [hT4]
          have gU' : Good (.umap kw e) (.umap (insKV k (denote e init) vs)) := F'.sub
          refine step_fill _ _ (.elem j) e (denote e init) gU' hr1' _ _ _ (by simp only [HonStep]; exact ⟨true, rfl⟩) ?_
          have hpl1 : (stepPre (.umap kw e) (.umap (insKV k (denote e init) vs)) (.elem j) 0).length
              = (stepPre (.umap kw e) (.umap vs) (.elem j) 0).length := by
            have := stepPre_subst1_len (.umap kw e) (.umap vs) (.elem j) e vs[j].2 (denote e init) gt h1 0 0
            simp only [subst1, hxj, hkey] at this
            rw [hins]; exact this
          rw [hpl1, hoffπ']
          have : w.a.base + offsetOf s v (π ++ [Step.elem j])
              = w.a.base + offsetOf s v π + (stepPre (.umap kw e) (.umap vs) (.elem j) 0).length := by
            rw [hoffapp, hoffe]; omega
          rw [← this]; exact hon_treeOf e _ _
        · simpa [World.set, World.get] using ho
  | error er =>
    cases er
    case bad => simp only [StepRes]
    all_goals (
      simp only []
      split
      · rename_i heq; exact absurd heq (key1 _)
      · rename_i t1 heq
        generalize hpre : preOf (Shape.umap kw e) _ _ op = pre at heq ⊢
        have hpreq : pre = .enterSetData j := by
          obtain ⟨fd, hfd, hpre'⟩ : ∃ fd, fd = umapFound (vs.map fun kv => rdLE kv.1) op
              ∧ preOf (.umap kw e) vs.length fd op = pre :=
            ⟨_, (by cases op <;> first | rfl | (rw [← hkeys]; rfl)), hpre⟩
          rw [← hpre', hfd, hfd0, hpre0 vs.length]
        subst hpreq
        obtain ⟨hT1, hstep⟩ := key2 t1 heq
        obtain ⟨R1, hR1, hp1⟩ := hrep t1
        simp only [hR1, Option.getD_some]
        have hp1' : HonPath s v w.a.base (π ++ [.elem j]) R1
            (treeOf e vs[j].2 (w.a.base + offsetOf s v (π ++ [.elem j]))) :=
          honPath_append π s v _ _ _ [.elem j] R1 t1 _ hres hp1 (by
            simp only [HonPath, h1]
            exact ⟨_, hstep, by rw [hoffapp, hoffe, ← Nat.add_assoc]⟩)
        rcases hrun R1 _ hp1' (hon_treeOf e _ _) with ⟨e', hspec, h, hre⟩ | ⟨u', r', m1, hspec, heq2, _⟩
        · cases h
          simp only [hre, Bool.false_eq_true, if_false, StepRes]
          refine ⟨v, .umap vs, t1, ?_, hres, ?_, ?_, rfl, rfl, rfl, rfl, rfl, rfl, Or.inr (Or.inl ⟨_, hspec, rfl, rfl, rfl⟩)⟩
          · exact pctx_after c w.a.mem R1 c.good hbytes rfl rfl (by rw [← hbytes]; exact hfit)
          · simpa [World.set, World.get] using hp1
          · simpa [World.set, World.get] using hT1
        · cases heq2)

end Unsized.Ptr
